"""C01 - hyperbolic model coordinates are mutually consistent and carry one metric.

Engine E on the graph of models: a state is (dimension, lattice point, model, representative);
a transition reads coords(m') from the real Point and rebuilds Point(coords, model=m') (or
get_point); in every reached state all charts are compared with the oracle (mc/oracle/hyp.py).
Engine P: all ordered pairs x all (model, representative) combinations for the metric, all triples
for the triangle inequality, all composite shapes.
"""
import itertools
import warnings

import math

import numpy as np

from mc import lattice
from mc.oracle import hyp

# (model, representative): lambda for projective, sheet sign for hyperboloid
VARIANTS = [["projective", 1.0], ["projective", -1.0], ["projective", 2.5], ["projective", -0.3],
            ["hyperboloid", 1.0], ["hyperboloid", -1.0],
            ["klein", 1.0], ["poincare", 1.0], ["halfspace", 1.0]]
IDEAL_VARIANTS = [v for v in VARIANTS if v[0] != "hyperboloid"]
IDEAL_MODELS = ["projective", "klein", "poincare", "halfspace"]
VIAS = ["Point", "get_point"]

TOL = 1e-9       # well-conditioned quantities: TOL * (1 + |value|)
TOL_SQRT = 1e-6  # sqrt-eps class: arccosh near 1 (closed-form model metrics evaluated by the ORACLE), conformal coordinates of ideal points
EPS = 2.2e-16


def dist_own(model, a, b):
    """The model's own closed-form metric on coordinates the LIBRARY reported.  The hyperboloid model is the future
    sheet x0 > 0 of <x,x> = -1 and its metric is arccosh(-<x,y>) (no absolute value: the oracle's projective form
    |<x,y>| would forgive coordinates on the past sheet); a product that is not >= 1 up to rounding gives NaN."""
    if model != "hyperboloid":
        return hyp.dist_in_model(model, a, b)
    a, b = np.asarray(a, dtype=float), np.asarray(b, dtype=float)
    c = -hyp.mink(a, b)
    with np.errstate(all="ignore"):
        return np.where(c >= 1.0 - 1e-9, np.arccosh(np.maximum(c, 1.0)), np.nan)


def acosh_tol(d, delta):
    """Bound on |arccosh(max(cosh d + e, 1)) - d| over |e| <= delta: arccosh is increasing and concave on
    [1, oo), hence never more than arccosh(1 + delta) ~ sqrt(2 delta); and at most 2 delta / sinh d once
    delta <= (cosh d - 1) / 2 (mean value theorem; (c^2 - 1) >= sinh^2 d / 4 for c >= (cosh d + 1) / 2)."""
    hi = math.acosh(1.0 + delta) if delta > 1e-4 else math.sqrt(2.0 * delta)   # acosh(1+x) itself loses digits for tiny x
    if d > 0.0 and delta <= math.sinh(d / 2.0) ** 2:          # (cosh d - 1) / 2 = sinh^2 (d / 2)
        return min(hi, 2.0 * delta / math.sinh(d))
    return hi


# ------------------------------------------------------------------------------------------
# helpers
# ------------------------------------------------------------------------------------------
def oracle_coords(model, klein, rep=1.0):
    c = hyp.klein_to(model, np.asarray(klein, dtype=float), 1.0)
    if model in ("projective", "hyperboloid"):
        c = rep * c
    return c


class Kept:
    """The caller's side of every construction: the arrays handed to the library are KEPT by the harness (as a
    user keeps the coordinates he read with Point.coords to use them again), together with a byte snapshot.
    The coordinates a point was built from are that point's coordinates for as long as the caller holds them:
    construction and the read-only queries coords() / distance() must leave the array bitwise unchanged
    (otherwise the model's closed-form metric on "the points' coordinates", and a second point built from the
    same coordinates, are those of another point)."""

    def __init__(self):
        self.items = []

    def array(self, coords, model, dtype=float, pack="c"):
        base = np.array(coords, dtype=dtype)     # C-contiguous, owned by the harness
        arr = base
        if pack == "strided":                    # a non-contiguous view into a larger array the caller owns
            base = np.zeros(base.shape[:-1] + (2 * base.shape[-1],), dtype=dtype)
            base[..., ::2] = coords
            base[..., 1::2] = 7
            arr = base[..., ::2]
        elif pack == "fortran" and base.ndim >= 2:
            base = np.asfortranarray(base)
            arr = base
        elif pack == "readonly":
            base.flags.writeable = False
        self.items.append((arr, base, base.tobytes(), base.dtype, base.shape, model, pack))
        return arr

    def check(self, v, where, seen=None):
        """Append a violation for every kept array that no longer holds what the harness put into it."""
        for arr, base, snap, dt, shp, model, pack in self.items:
            if base.dtype != dt or base.shape != shp or base.tobytes() != snap:
                key = "caller-array/modified/%s/%s" % (model, str(dt))
                if seen is not None:
                    if key in seen:
                        continue
                    seen.add(key)
                was = np.frombuffer(snap, dtype=dt).reshape(shp)
                v.append({"key": key,
                          "msg": "%s: the %s coordinate array (%s, %s) handed to the library was modified: it held %r, now holds %r" % (
                              where, model, dt, pack, was.ravel()[:6].tolist(), np.asarray(base).ravel()[:6].tolist())})
        return len(self.items)


def construct(arr, model, via="Point"):
    from geometry_tools import hyperbolic
    if via == "get_point":
        return hyperbolic.get_point(arr, model=model)
    if via == "coords-set":                      # the setter form of Point.coords on an existing point of the same dimension
        n = arr.shape[-1] - (1 if model in ("projective", "hyperboloid") else 0)
        start = np.zeros(arr.shape[:-1] + (n + 1,))
        start[..., 0] = 1.0
        start[..., 1] = 0.25
        pt = hyperbolic.Point(start)
        pt.coords(model, arr)
        return pt
    return hyperbolic.Point(arr, model=model)


def build(coords, model, via="Point", kept=None):
    """Build a point from a fresh float64 array; with `kept`, the harness keeps that array (and checks it later)."""
    if kept is not None:
        arr = kept.array(coords, model)
    else:
        arr = np.array(coords, dtype=float)      # fresh float array: the library may normalise in place
    return construct(arr, model, via)


def chart_error(model, got, klein, ideal):
    """(error, tolerance, structural problem or None) of library coordinates vs the oracle chart."""
    klein = np.asarray(klein, dtype=float)
    want = hyp.klein_to(model, klein) if not (ideal and model == "hyperboloid") else None
    got = np.asarray(got)
    if got.dtype.kind != "f":
        return None, None, "dtype %s is not a float type" % got.dtype
    if got.shape != want.shape:
        return None, None, "shape %r, expected %r" % (got.shape, want.shape)
    if not np.all(np.isfinite(got)):
        return None, None, "non-finite coordinates %r" % (got.tolist(),)
    if model == "projective":
        err = float(np.max(hyp.proj_diff(got, want)))
        scale = 1.0
    elif model == "hyperboloid":
        # the hyperboloid model is the future sheet (x0 > 0): the coordinates of a point are unique, whatever the sign
        # of the representative the point was built from (otherwise the model's metric arccosh(-<x,y>) fails on them)
        err = float(np.max(np.abs(got - want)))
        scale = 1.0 + float(np.max(np.abs(want)))
    else:
        err = float(np.max(np.abs(got - want)))
        scale = 1.0 + float(np.max(np.abs(want)))
    if ideal and model in ("poincare", "halfspace"):
        tol = TOL_SQRT * scale * scale
    elif ideal:
        tol = TOL_SQRT
    else:
        tol = TOL * scale
    return err, tol, None


def check_all_charts(pt, klein, ideal, where, v):
    """Read every chart twice (forward and reverse order: a read -- some of them used to renormalise the
    stored representative in place -- must not change the point nor what a later read returns)."""
    models = IDEAL_MODELS if ideal else hyp.MODELS
    t = 0
    worst = 0.0
    for m in list(models) + list(reversed(models)):
        c = pt.coords(m)
        t += 1
        err, tol, bad = chart_error(m, c, klein, ideal)
        cls = "ideal" if ideal else "interior"
        if bad is not None:
            v.append({"key": "coords-type/%s/%s" % (m, cls), "msg": "%s: coords(%s): %s" % (where, m, bad)})
            continue
        worst = max(worst, err / tol)
        if not err <= tol:
            v.append({"key": "coords/%s/%s" % (m, cls),
                      "msg": "%s: coords(%s)=%r differs from the oracle chart by %.3g (tol %.1g)" % (
                          where, m, np.asarray(c).tolist(), err, tol)})
    return t, worst


# ------------------------------------------------------------------------------------------
# engine E: the graph of models
# ------------------------------------------------------------------------------------------
def case_models(hist):
    root = hist[0]
    _, n, kind, klein, model, rep, both = root
    ideal = kind == "ideal"
    klein = np.asarray(klein, dtype=float)
    kept = Kept()
    pt = build(oracle_coords(model, klein, rep), model, kept=kept)
    t = 1
    path = ["%s*%g" % (model, rep)]
    cur = [model, rep, "Point"]
    prev = None
    for op in hist[1:]:
        _, m2, via, rep2 = op
        c = np.array(pt.coords(m2), dtype=float)
        if m2 in ("projective", "hyperboloid"):
            c = rep2 * c
        pt = build(c, m2, via, kept=kept)
        t += 2
        path.append("%s*%g/%s" % (m2, rep2, via))
        prev, cur = cur, [m2, rep2, via]
    v = []
    where = "H^%d %s point klein=%r via %s" % (n, kind, klein.tolist(), " -> ".join(path))
    if pt.dimension != n:
        v.append({"key": "coords-type/dimension", "msg": "%s: dimension %r" % (where, pt.dimension)})
    tt, worst = check_all_charts(pt, klein, ideal, where, v)
    t += tt
    # caller-array discipline: every array a point of this history was built from still holds what the harness
    # put there (after construction and after every coords() read), and a SECOND point built from the array
    # the current point was built from is the same point
    kept.check(v, where)
    if not v:
        last, _, _, _, _, lm, _ = kept.items[-1]
        pt2 = construct(last, lm, cur[2])
        tt, w2 = check_all_charts(pt2, klein, ideal, where + " [second point built from the same kept %s array]" % lm, v)
        t += tt + 1
        worst = max(worst, w2)
        kept.check(v, where)
    variants = IDEAL_VARIANTS if ideal else VARIANTS
    if v:
        ops = []
    elif both:
        ops = [["to", m, via, r] for (m, r) in variants for via in VIAS]
    else:       # quick tier: the two constructors alternate over targets and levels
        ops = [["to", m, VIAS[(i + len(hist)) % 2], r] for i, (m, r) in enumerate(variants)]
    key = repr((n, kind, klein.tolist(), prev, cur))
    return {"v": v, "t": t, "key": key, "ops": ops,
            "o": "%d/%s/%s/%d" % (n, kind, "->".join(p.split("/")[0] for p in path[-2:]), int(np.ceil(np.log10(worst + 1e-12)))),
            "nt": len(hist) > 1}


# ------------------------------------------------------------------------------------------
# engine P: the metric
# ------------------------------------------------------------------------------------------
def _dist(P, Q):
    with warnings.catch_warnings():
        warnings.simplefilter("ignore")       # arccosh of an argument below 1 warns and gives NaN (finding F2)
        return P.distance(Q)


def case_pair(case):
    n, kp, kq, same = case["n"], np.asarray(case["p"], dtype=float), np.asarray(case["q"], dtype=float), case["same"]
    v = []
    t = 0
    seen = set()

    def add(key, msg):
        if key not in seen:
            seen.add(key)
            v.append({"key": key, "msg": msg})

    # the five closed-form metrics on oracle coordinates
    orac = {m: float(hyp.dist_in_model(m, hyp.klein_to(m, kp), hyp.klein_to(m, kq))) for m in hyp.MODELS}
    d0 = 0.0 if same else orac["klein"]
    # equal points are at distance 0: the library's value is held to TOL; the ORACLE's closed-form metrics evaluate
    # arccosh at 1 +- eps (up to sqrt(2 eps) = 2.1e-8 each) and are only comparable in the sqrt-eps class
    tol = TOL * (1.0 + d0)
    tol_cf = TOL_SQRT if same else tol
    for m, d in orac.items():
        if not abs(d - d0) <= tol_cf:
            raise AssertionError("oracle metrics disagree: %r" % (orac,))   # harness problem, not a defect
    nan_self = 0
    for (i, (mp, rp)), (j, (mq, rq)) in itertools.product(enumerate(VARIANTS), repeat=2):
        kept = Kept()
        P = build(oracle_coords(mp, kp, rp), mp, kept=kept)
        Q = build(oracle_coords(mq, kq, rq), mq, kept=kept)
        d = _dist(P, Q)
        t += 1
        who = "H^%d d(%s*%g %r, %s*%g %r)" % (n, mp, rp, kp.tolist(), mq, rq, kq.tolist())
        kept.check(v, who, seen)
        arr = np.asarray(d)
        if arr.shape != () or arr.dtype.kind != "f":
            add("metric/distance-type", "%s has shape %r dtype %s" % (who, arr.shape, arr.dtype))
            continue
        d = float(d)
        if d != d:
            nan_self += 1
            add("metric/distance-self/nan" if same else "metric/distance/nan",
                "%s is NaN (oracle %.3g)" % (who, d0))
            continue
        if not np.isfinite(d):
            add("metric/distance/infinite", "%s = %r" % (who, d))
            continue
        if d < 0:
            add("metric/distance/negative", "%s = %r" % (who, d))
        if same and not d <= tol:
            add("metric/distance-self/value", "%s = %.12g: the two points are equal, their distance is 0 (tol %.1g)" % (who, d, tol))
        for m, dm in orac.items():
            if not abs(d - dm) <= tol_cf:
                add("metric/distance-self/value" if same else "metric/distance/%s-metric" % m,
                    "%s = %.12g, closed-form %s metric on oracle coordinates gives %.12g" % (who, d, m, dm))
        d2 = float(_dist(Q, P))
        t += 1
        if d2 == d2 and not abs(d - d2) <= TOL:
            add("metric/symmetry", "%s = %.15g but reversed %.15g" % (who, d, d2))
        if j in (i, (i + 4) % len(VARIANTS)):
            # the model's own closed-form metric on the coordinates the library reports
            for m in hyp.MODELS:
                cp, cq = P.coords(m), Q.coords(m)
                t += 2
                dm = float(dist_own(m, cp, cq))
                if not abs(d - dm) <= tol_cf:            # NaN (hyperboloid coordinates on different sheets) fails too
                    add("metric/own-coordinates/%s" % m,
                        "%s = %.12g, closed-form %s metric on the library's own coordinates gives %.12g" % (who, d, m, dm))
            # the coordinate arrays the caller kept: still the points' coordinates after the queries above, so the
            # model's closed-form metric on them, and second points built from them, give the same distance
            kept.check(v, who + " after distance() and coords()", seen)
            ap, aq = kept.items[0][0], kept.items[1][0]
            if mp == mq:
                dm = float(hyp.dist_in_model(mp, ap, aq))
                if not abs(d - dm) <= tol_cf:
                    add("caller-array/closed-form-metric/%s" % mp,
                        "%s = %.12g, closed-form %s metric on the arrays the points were built from gives %.12g" % (who, d, mp, dm))
            d3 = float(_dist(construct(ap, mp, "get_point"), construct(aq, mq, "Point")))
            t += 3
            if d3 == d3 and not abs(d - d3) <= TOL:
                add("caller-array/second-point/%s" % mp,
                    "%s = %.12g, but second points built from the same two kept arrays are at distance %.12g" % (who, d, d3))
            kept.check(v, who + " after building second points", seen)
    return {"v": v, "t": t, "o": "%d/%.3f/%d" % (n, d0, nan_self), "nt": True}


REP_SCALES = [1e-9, -1e-6, 1e-3, 1.0, -1e3, 1e6, -1e9, 1e-12, 1e12]


def case_rep_scales(case):
    """Projective coordinates are homogeneous: lambda * x is the same point for EVERY non-zero lambda, tiny and huge ones
    included.  For two lattice points and every pair of scales: all charts of lambda x (alone, and of a composite whose
    units carry all the scales), d(lambda x, mu y) against the Klein metric, the models' own closed-form metrics on the
    coordinates the library reports, unit hyperboloid coordinates and the round trip through them."""
    n, kp, kq, same = case["n"], np.asarray(case["p"], dtype=float), np.asarray(case["q"], dtype=float), case["same"]
    ideal = case.get("ideal", False)
    v, t, seen = [], 0, set()

    def add(key, msg):
        if key not in seen:
            seen.add(key)
            v.append({"key": key, "msg": msg})

    def cls(s):
        return "tiny" if abs(s) < 1e-2 else ("huge" if abs(s) > 1e2 else "unit")
    worst = 0.0
    if ideal:
        for i, s in enumerate(REP_SCALES):
            P = build(oracle_coords("projective", kp, s), "projective", VIAS[i % 2])
            vv = []
            tt, w = check_all_charts(P, kp, True, "H^%d ideal point %r from projective coordinates scaled by %g" % (n, kp.tolist(), s), vv)
            t += tt + 1
            worst = max(worst, w)
            for x in vv:
                add(x["key"] + "/representative-scale/" + cls(s), x["msg"])
        return {"v": v, "t": t, "o": "%d/ideal/%d" % (n, int(np.ceil(np.log10(worst + 1e-12)))), "nt": True}
    d0 = 0.0 if same else float(hyp.dist_in_model("klein", kp, kq))
    tol = TOL * (1.0 + d0)
    for i, s in enumerate(REP_SCALES):
        P = build(oracle_coords("projective", kp, s), "projective", VIAS[i % 2])
        who = "H^%d point %r from projective coordinates scaled by %g" % (n, kp.tolist(), s)
        vv = []
        tt, w = check_all_charts(P, kp, False, who, vv)
        t += tt + 1
        worst = max(worst, w)
        for x in vv:
            add(x["key"] + "/representative-scale/" + cls(s), x["msg"])
        h = np.array(P.coords("hyperboloid"), dtype=float)
        if h.shape == (n + 1,) and np.all(np.isfinite(h)):
            if not abs(hyp.mink(h, h) + 1.0) <= TOL * (1.0 + float(h[0]) ** 2):
                add("coords/hyperboloid/not-unit/representative-scale/" + cls(s), "%s: <h,h> = %r for h = %r" % (who, float(hyp.mink(h, h)), h.tolist()))
            vv = []
            tt, w = check_all_charts(build(h, "hyperboloid"), kp, False, who + " -> Point(coords(hyperboloid), model=hyperboloid)", vv)
            t += tt + 2
            for x in vv:
                add("roundtrip-hyperboloid/" + x["key"] + "/representative-scale/" + cls(s), x["msg"])
        for j, u in enumerate(REP_SCALES):
            Pn = build(oracle_coords("projective", kp, s), "projective", VIAS[(i + j) % 2])
            Q = build(oracle_coords("projective", kq, u), "projective", VIAS[j % 2])
            d = float(_dist(Pn, Q))
            d2 = float(_dist(Q, Pn))
            t += 4
            wd = "H^%d d(projective*%g %r, projective*%g %r)" % (n, s, kp.tolist(), u, kq.tolist())
            c2 = "%s-%s" % tuple(sorted((cls(s), cls(u))))
            if not (d == d and np.isfinite(d) and d >= 0 and abs(d - d0) <= tol):
                add("metric/distance/representative-scale/" + c2, "%s = %r, Klein metric gives %.12g" % (wd, d, d0))
                continue
            if not abs(d - d2) <= TOL:
                add("metric/symmetry/representative-scale/" + c2, "%s = %.15g but reversed %.15g" % (wd, d, d2))
            if j in (i, (i + 4) % len(REP_SCALES)):
                tol_cf = TOL_SQRT if same else tol
                for m in hyp.MODELS:
                    dm = float(dist_own(m, Pn.coords(m), Q.coords(m)))
                    t += 2
                    if not abs(d - dm) <= tol_cf:
                        add("metric/own-coordinates/%s/representative-scale/%s" % (m, c2),
                            "%s = %.12g, closed-form %s metric on the library's own coordinates gives %.12g" % (wd, d, m, dm))
    # one composite whose units carry all the scales (normalisation is per unit)
    pts = [kp if i % 2 == 0 else kq for i in range(len(REP_SCALES))]
    arr = np.stack([oracle_coords("projective", k, s) for k, s in zip(pts, REP_SCALES)])
    C = build(arr, "projective")
    t += 1
    for m in hyp.MODELS:
        c = np.asarray(C.coords(m))
        t += 1
        err, tl, bad = chart_error(m, c, np.stack(pts), False)
        if bad is not None or not err <= tl:
            add("coords/%s/composite/representative-scale" % m, "H^%d composite of %r / %r with unit scales %r: coords(%s) %s" % (
                n, kp.tolist(), kq.tolist(), REP_SCALES, m, bad or "differs from the oracle chart by %.3g" % err))
    one = build(oracle_coords("projective", kq, 1.0), "projective")
    dd = np.asarray(_dist(C, one), dtype=float)
    t += 2
    want = np.array([0.0 if (same or i % 2 == 1) else float(hyp.dist_in_model("klein", k, kq)) for i, k in enumerate(pts)])
    if dd.shape != want.shape or not np.all(np.abs(dd - want) <= TOL * (1.0 + want)):
        add("metric/distance/composite/representative-scale", "H^%d composite of %r / %r with unit scales %r: distances to %r are %r, Klein metric gives %r" % (
            n, kp.tolist(), kq.tolist(), REP_SCALES, kq.tolist(), dd.tolist(), want.tolist()))
    return {"v": v, "t": t, "o": "%d/%.3f/%d" % (n, d0, int(np.ceil(np.log10(worst + 1e-12)))), "nt": True}


def case_triangle(case):
    n, shift, pts = case["n"], case["shift"], [np.asarray(p, dtype=float) for p in case["pts"]]
    N = len(pts)
    objs = []
    kept = Kept()
    for i, k in enumerate(pts):
        m, r = VARIANTS[(i + shift) % len(VARIANTS)]
        objs.append(build(oracle_coords(m, k, r), m, kept=kept))
    D = np.zeros((N, N))
    v = []
    nan = 0
    for i in range(N):
        for j in range(N):
            D[i, j] = float(_dist(objs[i], objs[j]))
    kept.check(v, "H^%d: all pairwise distances of %d lattice points (variant shift %d)" % (n, N, shift), set())
    for i in range(N):
        if D[i, i] != D[i, i]:
            nan += 1
            D[i, i] = 0.0
    if nan:
        v.append({"key": "metric/distance-self/nan",
                  "msg": "H^%d: d(x,x) is NaN for %d of %d lattice points (variant shift %d)" % (n, nan, N, shift)})
    elif not np.all(np.abs(np.diag(D)) <= TOL):
        i = int(np.argmax(np.abs(np.diag(D))))
        v.append({"key": "metric/distance-self/value",
                  "msg": "H^%d: x.distance(x) = %r for x = %r (variant shift %d): the same object on both sides, expected 0 (tol %.1g)" % (
                      n, D[i, i], pts[i].tolist(), shift, TOL)})
    if not np.all(np.isfinite(D)):
        i, j = np.argwhere(~np.isfinite(D))[0]
        v.append({"key": "metric/distance/nan", "msg": "H^%d: d(%r,%r) = %r" % (n, pts[i].tolist(), pts[j].tolist(), D[i, j])})
        return {"v": v, "t": N * N, "o": "nan", "nt": True}
    # d(i,k) <= d(i,j) + d(j,k) for all ordered triples
    slack = D[:, :, None] + D[None, :, :] - D[:, None, :]
    bad = np.argwhere(slack < -TOL)
    if len(bad):
        i, j, k = bad[0]
        v.append({"key": "metric/triangle-inequality",
                  "msg": "H^%d: d(x,z)=%.9g > d(x,y)+d(y,z)=%.9g+%.9g for x=%r y=%r z=%r (%d triples)" % (
                      n, D[i, k], D[i, j], D[j, k], pts[i].tolist(), pts[j].tolist(), pts[k].tolist(), len(bad))})
    tight = int(np.sum(slack < 1e-3)) - N * N * 2 + N   # triples with i=j or j=k are trivially tight
    return {"v": v, "t": N * N, "o": "%d/%d/%d/%d" % (n, shift, tight, nan), "nt": True}


# ------------------------------------------------------------------------------------------
# engine P: composite shapes
# ------------------------------------------------------------------------------------------
def case_shape(case):
    n, shape, vi, via, ideal = case["n"], tuple(case["shape"]), case["variant"], case["via"], case["ideal"]
    pts = [np.asarray(p, dtype=float) for p in case["pts"]]
    variants = IDEAL_VARIANTS if ideal else VARIANTS
    model, rep = variants[vi]
    count = int(np.prod(shape)) if len(shape) else 1
    reps = [rep * lattice.LAMBDAS[i % 4] if model == "projective" else rep for i in range(len(pts))]
    units = [oracle_coords(model, k, r) for k, r in zip(pts, reps)]
    arr = lattice.tile(units, shape)
    kept = Kept()
    P = build(arr, model, via, kept=kept)
    v = []
    t = 1
    cls = "ideal" if ideal else "interior"
    who = "H^%d %s composite of shape %r built from %s via %s" % (n, cls, shape, model, via)
    if tuple(P.shape) != shape:
        v.append({"key": "shape/object-shape", "msg": "%s: .shape = %r" % (who, P.shape)})
    kl = lattice.tile(pts, shape)        # the Klein coordinates of every unit, same tiling
    for m in (IDEAL_MODELS if ideal else hyp.MODELS):
        c = np.asarray(P.coords(m))
        t += 1
        dim = n + 1 if m in ("projective", "hyperboloid") else n
        if c.shape != shape + (dim,):
            v.append({"key": "shape/coords-shape/%s" % m, "msg": "%s: coords(%s).shape = %r" % (who, m, c.shape)})
            continue
        err, tol, bad = chart_error(m, c, kl, ideal)
        if bad is not None:
            v.append({"key": "shape/coords-type/%s" % m, "msg": "%s: coords(%s): %s" % (who, m, bad)})
        elif not err <= tol:
            v.append({"key": "shape/coords/%s/%s" % (m, cls),
                      "msg": "%s: coords(%s) differ from the per-point oracle values by %.3g" % (who, m, err)})
    nan = 0
    if not ideal:
        # distance to the same lattice shifted by one place, built from another model
        m2, r2 = VARIANTS[(vi + 3) % len(VARIANTS)]
        pts2 = pts[1:] + pts[:1]
        Q = build(lattice.tile([oracle_coords(m2, k, r2) for k in pts2], shape), m2, via, kept=kept)
        d = np.asarray(_dist(P, Q))
        t += 1
        want = hyp.dist_klein(kl, lattice.tile(pts2, shape))
        if d.shape != shape:
            v.append({"key": "shape/distance-shape", "msg": "%s: distance(...).shape = %r" % (who, d.shape)})
        elif d.dtype.kind != "f":
            v.append({"key": "shape/distance-type", "msg": "%s: distance dtype %s" % (who, d.dtype)})
        else:
            tol = TOL * (1.0 + want)
            if not np.all(np.abs(d - want) <= tol):     # NaN fails too
                v.append({"key": "shape/distance/value",
                          "msg": "%s: distance to the shifted composite (%s) differs from the per-pair oracle by %r" % (
                              who, m2, float(np.nanmax(np.abs(d - want))) if np.any(np.isfinite(d)) else "NaN")})
        # distance of the composite to itself / to a copy from another model: zeros, never NaN
        Q0 = build(lattice.tile([oracle_coords(m2, k, r2) for k in pts], shape), m2, via, kept=kept)
        for other, label in ((P, "itself"), (Q0, "a copy built from %s" % m2)):
            d = np.asarray(_dist(P, other))
            t += 1
            if d.shape != shape:
                v.append({"key": "shape/distance-shape", "msg": "%s: distance(...).shape = %r" % (who, d.shape)})
            elif np.any(np.isnan(d)):
                nan += int(np.sum(np.isnan(d)))
                v.append({"key": "metric/distance-self/nan",
                          "msg": "%s: distance to %s has %d NaN entries of %d" % (who, label, int(np.sum(np.isnan(d))), count)})
            elif not np.all(np.abs(d) <= TOL):
                v.append({"key": "metric/distance-self/value", "msg": "%s: distance to %s is %r (equal points: expected 0, tol %.1g)" % (who, label, float(np.max(np.abs(d))), TOL)})
    # the composite arrays the caller kept are unchanged, and a second composite built from the first kept array
    # (through the other constructor) is the same composite
    kept.check(v, who, set())
    if not v:
        P2 = construct(kept.items[0][0], model, VIAS[1 - VIAS.index(via)])
        t += 1
        for m in (IDEAL_MODELS if ideal else hyp.MODELS):
            err, tol, bad = chart_error(m, P2.coords(m), kl, ideal)
            t += 1
            if bad is not None or not err <= tol:
                v.append({"key": "caller-array/second-point/%s" % model,
                          "msg": "%s: a second composite built from the same kept array has coords(%s) %s" % (
                              who, m, bad or "off the per-point oracle values by %.3g" % err)})
        kept.check(v, who + " after building a second composite", set())
    return {"v": v, "t": t, "o": "%d/%r/%s/%s/%d" % (n, shape, model, cls, min(nan, 1)), "nt": count > 1}


# ------------------------------------------------------------------------------------------
# engine P: caller arrays.  The coordinates are the CALLER's: he keeps the ndarray he built a point from (for
# instance one returned by coords()) and uses it again -- to build the point again, to build it through another
# constructor, in the model's closed-form metric.  Every packaging of the same numbers gives the same point, and
# none of construction / coords() / distance() writes into the array.
# ------------------------------------------------------------------------------------------
CALLER_PACKS = [["float64", "c"], ["float64", "strided"], ["float64", "fortran"], ["float64", "readonly"],
                ["float32", "c"], ["float32", "readonly"]]
CALLER_INT_PACKS = [["int64", "c"], ["int32", "c"], ["int64", "strided"], ["int64", "readonly"]]
CALLER_VIAS = ["Point", "get_point", "coords-set"]
CALLER_SHAPES = [[], [3], [2, 2]]
INT_MODELS = ["poincare", "halfspace"]           # models whose setter converts the coordinates (the others keep the dtype given)
EPS32 = 6e-8
TOL32 = 1e-4     # float32 input: coordinates are known to 6e-8 relative; charts for |k| <= 0.9 amplify by <= ~30


def int_points(model, n, ideal):
    """Integer-valued coordinates of points of the closed ball, per model (the open ball has few integer points)."""
    if model == "poincare":
        if not ideal:
            return [[0] * n]
        return [[s if i == j else 0 for i in range(n)] for j in range(n) for s in (1, -1)][1: 5]   # +e1 is the half-space point at infinity
    # half-space: (x_1 .. x_(n-1), y), y > 0 interior, y = 0 ideal
    out = []
    for y in ((1, 2, 3) if not ideal else (0,)):
        for x in ((0,), (1,), (-2,)) if n >= 2 else ((),):
            out.append(list(x) + [1 if (i % 2) else -1 for i in range(n - 1 - len(x))] + [y])
    return out


def case_caller(case):
    n, model, rep, ideal = case["n"], case["model"], case["rep"], case["ideal"]
    dtype, pack, via, shape = case["dtype"], case["pack"], case["via"], tuple(case["shape"])
    m2, rep2 = case["other"]
    cls = "ideal" if ideal else "interior"
    if "coords" in case:                         # integer-valued coordinates given directly
        units = [np.asarray(c, dtype=float) for c in case["coords"]]
    else:
        units = [oracle_coords(model, np.asarray(k, dtype=float), rep) for k in case["pts"]]
    count = int(np.prod(shape)) if len(shape) else 1
    kept = Kept()
    arr = kept.array(lattice.tile(units, shape), model, dtype=np.dtype(dtype), pack=pack)
    # the points the array describes: the charts of the numbers as stored (float32 rounds the coordinates)
    kl = hyp.to_klein(model, np.asarray(arr, dtype=float))
    low = dtype == "float32"
    who = "H^%d %s point(s) of shape %r from a kept %s %s array (%s) via %s" % (n, cls, shape, model, dtype, pack, via)
    v, t, seen = [], 0, set()

    def add(key, msg):
        if key not in seen:
            seen.add(key)
            v.append({"key": key, "msg": msg})

    def charts(P, label):
        tt = 0
        for m in (IDEAL_MODELS if ideal else hyp.MODELS):
            c = np.asarray(P.coords(m))
            tt += 1
            kept.check(v, "%s: after %s.coords(%s)" % (who, label, m), seen)
            dim = n + 1 if m in ("projective", "hyperboloid") else n
            if c.shape != shape + (dim,):
                add("caller-array/coords-shape/%s" % m, "%s: %s.coords(%s).shape = %r" % (who, label, m, c.shape))
                continue
            err, tol, bad = chart_error(m, c, kl, ideal)
            if bad is None and low:
                tol = max(tol, TOL32 * (1.0 + float(np.max(np.abs(c)))) ** 2)
            if bad is not None or not err <= tol:
                add("caller-array/coords/%s/%s" % (m, cls), "%s: %s.coords(%s) %s" % (
                    who, label, m, bad or "differs from the charts of the array's numbers by %.3g (tol %.1g)" % (err, tol)))
        return tt

    P1 = construct(arr, model, via)
    t += 1
    kept.check(v, who + ": after construction", seen)
    if tuple(P1.shape) != shape:
        add("caller-array/object-shape", "%s: .shape = %r" % (who, P1.shape))
    t += charts(P1, "first point")
    # the coordinates read back in the point's own model are the numbers of the kept array
    if model not in ("projective", "hyperboloid") and not (ideal and model in ("poincare", "halfspace")):
        back = np.asarray(P1.coords(model), dtype=float)
        t += 1
        if back.shape != arr.shape or not np.all(np.abs(back - arr) <= (TOL32 if low else TOL) * (1.0 + np.abs(arr)) ** 2):
            add("caller-array/read-back/%s" % model, "%s: coords(%s) = %r, the kept array holds %r" % (
                who, model, back.ravel()[:6].tolist(), np.asarray(arr).ravel()[:6].tolist()))
    # a second point from the same kept array, through every constructor
    seconds = []
    for via2 in CALLER_VIAS:
        P2 = construct(arr, model, via2)
        t += 1
        kept.check(v, "%s: after building a second point via %s" % (who, via2), seen)
        t += charts(P2, "second point (via %s)" % via2)
        seconds.append((via2, P2))
    if not ideal:
        # float32 arrays stay float32 inside the library: the Minkowski product of the two unit vectors is cosh d + e with
        # |e| <= ~64 eps32 cosh R_x cosh R_y (eps32 = 6e-8), hence the arccosh conditioning of `acosh_tol`
        with np.errstate(all="ignore"):
            ch = 1.0 / np.sqrt(np.maximum(1.0 - np.sum(kl * kl, axis=-1), 1e-12))

        def tol_for(want, ch2):
            want, ch2 = np.broadcast_arrays(np.asarray(want, dtype=float), np.asarray(ch2, dtype=float))
            if not low:
                return TOL * (1.0 + want)
            return np.array([acosh_tol(float(w), 64.0 * EPS32 * float(c)) + TOL32 * (1.0 + float(w))
                             for w, c in zip(want.ravel(), ch2.ravel())]).reshape(want.shape)
        dtol = tol_for(np.zeros(shape), ch * ch)
        for via2, P2 in seconds:
            for a, b in ((P1, P2), (P2, P1), (P1, P1)):
                d = np.asarray(_dist(a, b))
                t += 1
                kept.check(v, who + ": after distance()", seen)
                if d.shape != shape or d.dtype.kind != "f":
                    add("caller-array/distance-type", "%s: distance has shape %r dtype %s" % (who, d.shape, d.dtype))
                elif not np.all(np.abs(d) <= dtol):      # NaN fails too
                    add("caller-array/second-point/%s" % model,
                        "%s: distance between the point and a second point built from the same array via %s: %r" % (
                            who, via2, d.ravel()[:6].tolist()))
        # another point: the same lattice shifted by one place (integer case: reversed order and sign-flipped first
        # coordinate stay integer-valued), kept as well; reported distance = the model's closed-form metric on the
        # two kept arrays = the Klein metric of the described points
        if "coords" in case:
            units2 = units[1:] + units[:1]
            arr2 = kept.array(lattice.tile(units2, shape), model, dtype=np.dtype(dtype), pack=pack)
            mq = model
        else:
            pts2 = case["pts"][1:] + case["pts"][:1]
            arr2 = kept.array(lattice.tile([oracle_coords(m2, np.asarray(k, dtype=float), rep2) for k in pts2], shape), m2,
                              dtype=np.dtype(dtype), pack=pack)
            mq = m2
        kl2 = hyp.to_klein(mq, np.asarray(arr2, dtype=float))
        Q = construct(arr2, mq, CALLER_VIAS[(CALLER_VIAS.index(via) + 1) % 3])
        want = hyp.dist_klein(kl, kl2)
        with np.errstate(all="ignore"):
            ch2 = 1.0 / np.sqrt(np.maximum(1.0 - np.sum(kl2 * kl2, axis=-1), 1e-12))
        tol2 = tol_for(want, ch * ch2)
        t += 1
        for a, b in ((P1, Q), (Q, P1), (seconds[0][1], Q)):
            d = np.asarray(_dist(a, b))
            t += 1
            kept.check(v, who + ": after distance() to another point", seen)
            if d.shape != shape or d.dtype.kind != "f":
                add("caller-array/distance-type", "%s: distance has shape %r dtype %s" % (who, d.shape, d.dtype))
            elif not np.all(np.abs(d - want) <= tol2):
                add("caller-array/distance/value", "%s: distance to the shifted point(s) built from a kept %s array: %r, metric of the described points %r" % (
                    who, mq, d.ravel()[:6].tolist(), np.asarray(want).ravel()[:6].tolist()))
        if mq == model:
            dm = np.asarray(hyp.dist_in_model(model, np.asarray(arr, dtype=float), np.asarray(arr2, dtype=float)))
            d = np.asarray(_dist(P1, Q))
            t += 1
            if d.shape == shape and not np.all(np.abs(d - dm) <= 2.0 * tol2):
                add("caller-array/closed-form-metric/%s" % model,
                    "%s: reported distance %r, closed-form %s metric on the two kept arrays %r" % (
                        who, d.ravel()[:6].tolist(), model, dm.ravel()[:6].tolist()))
    kept.check(v, who + ": at the end", seen)
    return {"v": v, "t": t, "o": "%d|%s|%s|%s|%s|%s|%r|%d" % (n, cls, model, dtype, pack, via, shape, len(v)), "nt": True}


def caller_cases(dims, lat, q):
    for n in dims:
        P, I = lat[n]
        for ideal in (False, True):
            pts = (I if ideal else P)
            pts = pts[: 6] if q else pts
            pts32 = [k for k in pts if float(np.dot(k, k)) <= 0.81]      # float32 arrays: Klein radius <= 0.9
            for vi, (model, rep) in enumerate(IDEAL_VARIANTS if ideal else VARIANTS):
                if model == "projective" and rep == 2.5 and q:
                    continue
                other = VARIANTS[(vi + 3) % len(VARIANTS)]
                for (dtype, pack) in CALLER_PACKS:
                    if dtype == "float32" and ideal:
                        continue                 # a float32 "unit" vector is 1e-8 off the sphere: ideal/interior is undecided
                    for via in CALLER_VIAS:
                        for shape in CALLER_SHAPES:
                            if pack == "fortran" and len(shape) < 1:
                                continue
                            yield {"n": n, "model": model, "rep": rep, "ideal": ideal, "dtype": dtype, "pack": pack, "via": via,
                                   "shape": shape, "pts": pts32 if dtype == "float32" else pts, "other": other}
            for model in INT_MODELS:
                coords = int_points(model, n, ideal)
                if model == "halfspace" and n == 1 and ideal:
                    continue
                for (dtype, pack) in CALLER_INT_PACKS:
                    for via in CALLER_VIAS:
                        for shape in CALLER_SHAPES:
                            yield {"n": n, "model": model, "rep": 1.0, "ideal": ideal, "dtype": dtype, "pack": pack, "via": via,
                                   "shape": shape, "coords": coords, "other": [model, 1.0]}


# ------------------------------------------------------------------------------------------
# far points: the open ball is not only |k| <= 0.99.  A point at hyperbolic distance R from the origin in
# direction u has, in closed form, hyperboloid (cosh R, sinh R u), Klein tanh(R) u, Poincare tanh(R/2) u;
# these oracle coordinates are computed from (R, u) directly, so they are well conditioned for large R.
# ------------------------------------------------------------------------------------------
FAR_RADII = [3.0, 5.0, 7.0, 9.0, 10.0, 11.0, 12.0, 14.0]
VERY_FAR_RADII = [15.0, 16.0, 17.0, 18.0]   # only "never NaN, finite, non-negative" is demanded there
FAR_NEAR = [0.0, 1e-3, 1e-1]     # same-ray partners at distance s beyond the point (0.0: the point itself)
FAR_START = ["hyperboloid", "projective", "poincare", "halfspace", "klein"]


def far_oracle(R, u):
    u = np.asarray(u, dtype=float)
    hb = np.concatenate([[math.cosh(R)], math.sinh(R) * u])
    po = math.tanh(R / 2.0) * u
    return {"hyperboloid": hb, "projective": -0.3 * hb, "klein": math.tanh(R) * u, "poincare": po,
            "halfspace": hyp.poincare_to_halfspace(po)}


def far_dist(R1, u1, R2, u2):
    """Closed-form distance; partners are either on the same ray (exact |R1-R2|) or in a direction at least
    0.5 rad away (then the law of cosines is well conditioned)."""
    c = float(np.dot(u1, u2))
    if R1 == 0.0 or R2 == 0.0:
        return abs(R1 - R2) if (R1 == 0.0 and R2 == 0.0) else max(R1, R2)
    if c > 1.0 - 1e-12:
        return abs(R1 - R2)
    x = math.cosh(R1) * math.cosh(R2) - math.sinh(R1) * math.sinh(R2) * c
    return math.acosh(max(x, 1.0))


def case_far(case):
    n, R, u, start = case["n"], case["R"], np.array(case["u"], dtype=float), case["start"]
    want = far_oracle(R, u)
    v, t = [], 0
    pt = build(want[start], start)
    where = "H^%d point at distance %g in direction %s, built from its %s coordinates" % (n, R, u.round(4).tolist(), start)
    # conditioning: recovering 1-|k|^2 = 1/cosh^2 R from rounded Klein (or Poincare) coordinates costs eps*cosh^2 R
    # relative; start models that store the point that way are only required to that accuracy
    cond = 1.0 + 4e-6 * math.cosh(R) ** 2        # eps * cosh^2 R / 1e-9, with a factor 10 of head-room
    very_far = bool(case.get("very_far"))
    # very far points (R >= 15: eps cosh^2 R >= 6e-4, no digits left for values): only "a distance is a finite
    # non-negative number, never NaN" is demanded, for the point against itself and against equal copies entered
    # through other models / representatives
    for m in ([] if very_far else list(hyp.MODELS) + ["poincare"]):
        got = np.asarray(pt.coords(m), dtype=float)
        t += 1
        w = want["hyperboloid" if m == "projective" else m]
        if got.shape != w.shape or not np.all(np.isfinite(got)):
            v.append({"key": "far/coords-type/%s" % m, "msg": "%s: coords(%s) = %r" % (where, m, got.tolist())})
            continue
        if m == "projective":
            err, tol = float(hyp.proj_diff(got, w)), 1e-9 * cond
        elif m == "hyperboloid":
            err = float(np.max(np.abs(got - w))) / float(np.max(np.abs(w)))       # future sheet: no sign freedom
            tol = 1e-9 * cond
        else:
            err = float(np.max(np.abs(got - w)))
            tol = 1e-9 * (1.0 + float(np.max(np.abs(w)))) ** 2 * cond
        if not err <= tol:
            v.append({"key": "far/coords/%s/from-%s" % (m, start),
                      "msg": "%s: coords(%s) = %r, closed form %r (error %.3g, tol %.1g)" % (where, m, got.tolist(), w.tolist(), err, tol)})
    # distances to the partners, against the closed form and each model's own metric on oracle coordinates
    for (R2, u2) in case["partners"]:
        u2 = np.array(u2, dtype=float)
        w2 = far_oracle(R2, u2)
        d0 = far_dist(R, u, R2, u2)
        other = build(w2["hyperboloid"], "hyperboloid")
        got = float(pt.distance(other))
        got2 = float(other.distance(build(want[start], start)))
        t += 2
        tol = 1e-9 * (1.0 + d0) * (cond + 4e-6 * math.cosh(R2) ** 2)
        if not (abs(got - d0) <= tol and abs(got2 - d0) <= tol):
            v.append({"key": "far/distance/from-%s" % start, "msg": "%s: distance to the point at distance %g in direction %s is %r / %r, closed form %r" % (
                where, R2, u2.round(4).tolist(), got, got2, d0)})
        for m, f in (("klein", hyp.dist_klein), ("poincare", hyp.dist_poincare), ("halfspace", hyp.dist_halfspace)):
            # the model's own closed-form metric evaluated on the LIBRARY's coordinates of both points
            a = np.asarray(pt.coords(m), dtype=float)
            b = np.asarray(other.coords(m), dtype=float)
            t += 2
            dm = float(f(a, b))
            # Klein/Poincare/half-space metrics recover 1-|k|^2 etc. from rounded coordinates: eps*cosh^2 conditioning
            tolm = (1e-9 + 1e-14 * (math.cosh(R) ** 2 + math.cosh(R2) ** 2)) * (1.0 + d0)
            if not abs(dm - d0) <= tolm:
                v.append({"key": "far/model-metric/%s" % m, "msg": "%s: %s closed-form metric on the library's coordinates gives %r, distance is %r" % (where, m, dm, d0)})
    # the point itself, equal copies of it entered through every model, and very close points on the same ray:
    # the unit hyperboloid vectors of the two points carry relative rounding errors of a few eps in coordinates of size
    # cosh R, which displaces each point by <~ eps cosh^2 R (the conditioning of the INPUT); the distance is demanded to
    # that accuracy -- not to the sqrt(2 eps cosh^2 R) of an arccosh(<x,y>) evaluated at 1 + rounding -- and it must
    # be a finite, non-negative number, never NaN
    zero_class = 0
    for s in (FAR_NEAR[:1] if very_far else FAR_NEAR):
        w2 = far_oracle(R + s, u)
        delta = 16.0 * EPS * math.cosh(R) * math.cosh(R + s)
        # + displacement of a point entered in Klein/Poincare/half-space coordinates (1-|k|^2 known to eps cosh^2 R)
        tol = 8.0 * delta + 32.0 * EPS * math.cosh(R + s) ** 2 + 1e-9
        others = [("the same object", pt)] if s == 0.0 else []
        others += [(("an equal copy built from %s coordinates" % m2) if s == 0.0 else
                    ("the point at distance %g further out, built from %s coordinates" % (s, m2)), build(w2[m2], m2)) for m2 in FAR_START]
        for label, other in others:
            for a, b, order in ((pt, other, ""), (other, pt, " (reversed)")):
                d = np.asarray(_dist(a, b))
                t += 1
                if d.shape != () or d.dtype.kind != "f":
                    v.append({"key": "far/near/distance-type", "msg": "%s: distance to %s has shape %r dtype %s" % (where, label, d.shape, d.dtype)})
                    continue
                d = float(d)
                cls = "self" if s == 0.0 else "close"
                if d != d:
                    v.append({"key": "far/near/nan/%s" % cls, "msg": "%s: distance to %s%s is NaN (expected %g)" % (where, label, order, s)})
                elif not (np.isfinite(d) and d >= 0.0):
                    v.append({"key": "far/near/not-finite-nonnegative/%s" % cls, "msg": "%s: distance to %s%s is %r" % (where, label, order, d)})
                elif very_far:
                    continue
                elif other is pt and not d <= TOL:
                    v.append({"key": "far/near/value/same-object", "msg": "%s: distance to itself%s is %r (the same object on both sides: expected 0, tol %.1g)" % (where, order, d, TOL)})
                elif not abs(d - s) <= tol:
                    v.append({"key": "far/near/value/%s" % cls, "msg": "%s: distance to %s%s is %r, expected %g (tol %.3g)" % (where, label, order, d, s, tol)})
                elif s == 0.0 and d == 0.0:
                    zero_class += 1
    seen, uniq = set(), []
    for x in v:
        if x["key"] not in seen:
            seen.add(x["key"])
            uniq.append(x)
    return {"v": uniq, "t": t, "o": "%d|%g|%s|%d|%d" % (n, R, start, len(uniq), min(zero_class, 3)), "nt": True}


# ------------------------------------------------------------------------------------------
# point histories (mixed interior / ideal composites): what a Point reports follows its current data
# ------------------------------------------------------------------------------------------
PH_OPS = ["q", "qiso", "set0", "setlast", "apply", "rebuild", "viaklein", "reverse", "index0"]


def _ph_check(P, K, ideal, who, v):
    """coords of the composite P against the per-unit oracle: K Klein coordinates, ideal flags per unit."""
    t = 0
    K = np.asarray(K, dtype=float)
    flags = np.asarray(ideal, dtype=bool)
    for m in hyp.MODELS + ["poincare", "klein"]:          # some charts twice: a second read must agree too
        c = np.asarray(P.coords(m))
        t += 1
        dim = K.shape[-1] + 1 if m in ("projective", "hyperboloid") else K.shape[-1]
        if c.shape != K.shape[:-1] + (dim,):
            v.append({"key": "point-history/coords-shape/%s" % m, "msg": "%s: coords(%s).shape = %r" % (who, m, c.shape)})
            return t
        for i in range(len(K)):
            if flags[i] and m == "hyperboloid":
                continue                                   # undefined for ideal points
            err, tol, bad = chart_error(m, c[i], K[i], bool(flags[i]))
            if bad is not None or not err <= tol:
                v.append({"key": "point-history/coords/%s/%s" % (m, "ideal" if flags[i] else "interior"),
                          "msg": "%s: unit %d (Klein %r): coords(%s) = %r (%s)" % (who, i, K[i].tolist(), m, np.asarray(c[i]).tolist(), bad or "error %.3g, tol %.1g" % (err, tol))})
                return t
    # distances between the interior units
    idx = [i for i in range(len(K)) if not flags[i]]
    if len(idx) >= 2:
        from geometry_tools import hyperbolic
        # the WHOLE composite against itself rolled by one place (an ideal unit stays in the arrays: it must not
        # spoil the distances between the interior units next to it); entries involving an ideal unit are ignored
        order = list(range(1, len(K))) + [0]
        Q = hyperbolic.Point(np.asarray(P.proj_data)[order].copy())
        with np.errstate(all="ignore"):
            d = np.asarray(_dist(P, Q), dtype=float)
        t += 1
        both = np.array([not flags[i] and not flags[order[i]] for i in range(len(K))])
        want = hyp.dist_klein(K, K[order])
        if d.shape != want.shape or not np.all(np.abs(d[both] - want[both]) <= TOL * (1 + want[both]) + 1e-9):
            v.append({"key": "point-history/distance", "msg": "%s: distances to the rolled composite %r, oracle %r (interior pairs %r)" % (who, d.tolist(), want.tolist(), both.tolist())})
    return t


def case_point_history(case):
    from geometry_tools import hyperbolic
    n, seed, ops, mixed = case["n"], case["seed"], case["ops"], case["mixed"]
    Pn = lattice.klein_points(n, 4, seed)
    In = lattice.ideal_dirs(n, 2, seed)
    axis = np.zeros(n)
    axis[-1] = -1.0                      # an ideal point whose representative (1, 0, .., -1) is EXACTLY null
    units = [(Pn[2], False), (axis if mixed else Pn[5], mixed), (Pn[4], False), (Pn[6], False)]
    extra = [(Pn[7], False), (In[0], True), (Pn[1], False)]
    K = [np.asarray(k, dtype=float) for k, _ in units]
    F = [f for _, f in units]
    reps = [1.0, -1.0, 2.5, -0.3]
    P = hyperbolic.Point(np.array([r * hyp.klein_to_projective(k) for k, r in zip(K, reps)]))
    # an isometry of H^n and its action on Klein coordinates (through the projective rows, exact up to rounding)
    g = hyperbolic.Point(hyp.klein_to_projective(0.4 * lattice.generic_dir(n, 21, seed))).origin_to()
    G = np.asarray(g.proj_data, dtype=float)
    v, t, nx = [], 1, 0
    for op in ops:
        t += 1
        if op == "q":
            for m in hyp.MODELS:
                try:
                    P.coords(m)
                except Exception:
                    pass
        elif op == "qiso":
            # queries that normalise rows of the stored data in place (results discarded; ideal units make some of them raise)
            for f in (lambda: P.origin_to(), lambda: P.distance(P), lambda: P.hyperboloid_coords()):
                try:
                    with np.errstate(all="ignore"):
                        f()
                except Exception:
                    pass
        elif op == "viaklein":
            # the same points entered again through their Klein coordinates (affine-chart route of the constructor)
            P = hyperbolic.Point(np.array(K, dtype=float), model="klein")
        elif op in ("set0", "setlast"):
            if len(P.shape) == 0:
                return {"v": [], "t": t, "o": "n/a", "nt": False}
            i = 0 if op == "set0" else len(K) - 1
            k, f = extra[nx % len(extra)]
            nx += 1
            P[i] = hyperbolic.Point(-0.3 * hyp.klein_to_projective(np.asarray(k, dtype=float)))
            K[i], F[i] = np.asarray(k, dtype=float), f
        elif op == "apply":
            P = g @ P
            rows = np.array([hyp.klein_to_projective(k) for k in K]) @ G
            K = [r[1:] / r[0] for r in rows]
        elif op == "rebuild":
            P = hyperbolic.Point(P)
        elif op == "reverse":
            if len(P.shape) == 0:
                return {"v": [], "t": t, "o": "n/a", "nt": False}
            P = P[::-1]
            K, F = K[::-1], F[::-1]
        elif op == "index0":
            if len(P.shape) == 0:
                return {"v": [], "t": t, "o": "n/a", "nt": False}
            P = hyperbolic.Point(np.asarray(P.proj_data)[:2])
            K, F = K[:2], F[:2]
    who = "H^%d composite point (%s) after %r" % (n, "interior and ideal units" if mixed else "interior units", ops)
    t += _ph_check(P, np.array(K), F, who, v)
    return {"v": v, "t": t, "o": "%d|%s|%s|%d" % (n, mixed, "-".join(ops), len(v)), "nt": True}


def point_history_cases(dims, seed):
    seqs = [[]] + [list(x) for d in (1, 2, 3) for x in itertools.product(PH_OPS, repeat=d) if x[-1] not in ("q", "qiso")]
    for n in dims:
        for mixed in (False, True):
            for ops in seqs:
                yield {"n": n, "seed": seed, "ops": ops, "mixed": mixed}


def far_cases(dims, seed, q):
    for n in dims:
        dirs = [d.tolist() for d in lattice.ideal_dirs(n, 2 if q else 6, seed)]
        pts = [(R, u) for R in FAR_RADII for u in dirs[:3 if q else 8]]
        for (R, u) in pts:
            # partners: the origin, a nearer point on the same ray, and far points in directions >= 0.5 rad away
            partners = [(0.0, u), (1.0, u), (R + 2.0, u)]
            for d in dirs:
                if float(np.dot(d, u)) < math.cos(0.5):
                    partners += [(7.0, d), (2.0, d)]
                    break
            for start in FAR_START:
                yield {"n": n, "R": R, "u": u, "start": start, "partners": [[r, d] for r, d in partners]}
        for R in VERY_FAR_RADII:
            for u in dirs[:3 if q else 8]:
                for start in FAR_START:
                    yield {"n": n, "R": R, "u": u, "start": start, "partners": [], "very_far": True}


# ------------------------------------------------------------------------------------------
# close clusters: a handful of points within Klein distance s (1e-2 .. 1e-6) of a lattice point (the origin
# included: then every point of the cluster has tiny Klein radius and its homogeneous coordinates are
# "almost" unit hyperboloid vectors).  Nearby distinct points are distinct: their distance is the small
# positive number the metric says, in every model, through every constructor -- not 0, and not what some
# "already normalised" / "already equal" shortcut would give.
# Truth: sinh d = sqrt(|D|^2 (1-|a|^2) + (a.D)^2) / sqrt((1-|a|^2)(1-|b|^2)), D = b - a (Klein metric rewritten
# without cancellation; relative error ~ eps |a| / |D|).
# ------------------------------------------------------------------------------------------
CLOSE_SCALES = [1e-2, 3e-3, 1e-3, 1e-4, 1e-5, 1e-6]
CLOSE_SCALES_QUICK = [1e-3, 1e-6]
CLOSE_VARIANTS = VARIANTS + [["projective", 1.000003]]    # a representative that is close to, but not on, the hyperboloid near the origin


def close_truth(a, b):
    D = b - a
    na, nb = 1.0 - float(a @ a), 1.0 - float(b @ b)
    return math.asinh(math.sqrt((float(D @ D) * na + float(a @ D) ** 2) / (na * nb)))


def close_cluster(a, s, n, seed):
    """Klein points: the centre, +-s and s/2 along w1, s along w2 (orthogonal to w1, n >= 2), s along a generic direction."""
    a = np.asarray(a, dtype=float)
    r = float(np.linalg.norm(a))
    w1 = a / r if r > 0 else np.eye(n)[0]
    pts = [a, a + s * w1, a + 0.5 * s * w1, a - s * w1]
    if n >= 2:
        e = np.eye(n)[int(np.argmin(np.abs(w1)))]
        w2 = e - float(e @ w1) * w1
        w2 = w2 / np.linalg.norm(w2)
        pts += [a + s * w2, a + s * lattice.generic_dir(n, 7, seed)]
    return [p.tolist() for p in pts]


def case_close(case):
    n, s = case["n"], case["s"]
    pts = [np.asarray(p, dtype=float) for p in case["pts"]]
    cls = "origin-cluster" if not np.any(pts[0]) else "ball"
    N, V = len(pts), len(CLOSE_VARIANTS)
    v, t, seen = [], 0, set()

    def add(key, msg):
        if key not in seen:
            seen.add(key)
            v.append({"key": key, "msg": msg})

    ch = [1.0 / math.sqrt(1.0 - float(p @ p)) for p in pts]            # cosh of the distance from the origin
    T = np.array([[0.0 if i == j else close_truth(pts[i], pts[j]) for j in range(N)] for i in range(N)])
    # the library's distance is held to the conditioning of its INPUT: the unit hyperboloid vectors carry a few eps of
    # relative rounding in coordinates of size cosh R, i.e. each point is known to ~eps cosh^2 R (measured: |d - truth| <=
    # 34 eps cosh R_x cosh R_y over all model pairs); rounding of the input coordinates moves each point by
    # <= ~50 eps in every model (|k| <= 0.91)
    TOLM = np.array([[16.0 * EPS * ch[i] * ch[j] + 1e-13 + 1e-9 * T[i, j] for j in range(N)] for i in range(N)])
    # a closed-form model metric EVALUATED IN FLOATING POINT (by the oracle here) is arccosh(1 + d^2/2 + e), |e| <= a few
    # eps cosh R_x cosh R_y: it carries the arccosh conditioning sqrt(2 e) resp. 2 e / sinh d, and is compared in that class
    TOLCF = np.array([[acosh_tol(T[i, j], 16.0 * EPS * ch[i] * ch[j]) + 1e-13 + 1e-9 * T[i, j] for j in range(N)] for i in range(N)])
    orac = {m: np.array([[float(hyp.dist_in_model(m, hyp.klein_to(m, pts[i]), hyp.klein_to(m, pts[j]))) for j in range(N)]
                         for i in range(N)]) for m in hyp.MODELS}
    for m, om in orac.items():
        if not np.all(np.abs(om - T) <= TOLCF):
            raise AssertionError("HARNESS: oracle %s metric disagrees with the cancellation-free form: %r vs %r" % (m, om.tolist(), T.tolist()))

    def fresh(i, a):
        m, r = CLOSE_VARIANTS[a]
        return build(oracle_coords(m, pts[i], r), m, VIAS[(i + a) % 2])

    def name(i, a):
        return "%s*%r %r" % (CLOSE_VARIANTS[a][0], CLOSE_VARIANTS[a][1], pts[i].tolist())

    wrong = set()

    def judge(P, Q, i, a, j, b, state):
        """One reported distance against the truth and the five closed-form metrics; returns it (NaN if unusable)."""
        d = np.asarray(P.distance(Q))
        who = "H^%d d(%s, %s) [%s objects]" % (n, name(i, a), name(j, b), state)
        if d.shape != () or d.dtype.kind != "f":
            add("close/distance-type", "%s has shape %r dtype %s" % (who, d.shape, d.dtype))
            return float("nan")
        d = float(d)
        kind = "self" if i == j else "distinct"
        if d != d:
            add("close/distance/nan/%s" % kind, "%s is NaN (true distance %.6g)" % (who, T[i, j]))
        elif not (np.isfinite(d) and d >= 0.0):
            add("close/distance/not-finite-nonnegative", "%s = %r" % (who, d))
            return float("nan")
        elif not abs(d - T[i, j]) <= TOLM[i, j]:
            add("close/distance/value/%s/%s" % (cls, kind),
                "%s = %.12g, the points are at distance %.12g (tol %.3g; closed-form model metrics on oracle coordinates: %s)" % (
                    who, d, T[i, j], TOLM[i, j], ", ".join("%s %.12g" % (m, om[i, j]) for m, om in orac.items())))
            wrong.add((i, a, j, b))
        else:
            for m, om in orac.items():
                if not abs(d - om[i, j]) <= 2.0 * TOLCF[i, j]:
                    add("close/model-metric/%s/%s" % (m, cls),
                        "%s = %.12g, closed-form %s metric on oracle coordinates gives %.12g" % (who, d, m, om[i, j]))
        return d

    D = np.full((N, V, N, V), np.nan)
    with warnings.catch_warnings():
        warnings.simplefilter("ignore")       # arccosh of an argument below 1 warns and gives NaN
        # (a) freshly built objects for every ordered pair of points (x = x included), every variant of the first
        #     against the variant four places on (another model): Point.distance renormalises the stored
        #     coordinates in place, so only fresh objects show what the constructor stored
        for i, a, j in itertools.product(range(N), range(V), range(N)):
            b = (a + 4) % V
            P, Q = fresh(i, a), fresh(j, b)
            d = judge(P, Q, i, a, j, b, "fresh")
            t += 1
            if d == d and i <= j and (i, a, j, b) not in wrong:
                for m in hyp.MODELS:                       # the model's own metric on the coordinates the library reports
                    dm = float(dist_own(m, P.coords(m), Q.coords(m)))
                    t += 2
                    if not abs(d - dm) <= 2.0 * TOLCF[i, j]:      # NaN (hyperboloid coordinates on different sheets) fails too
                        add("close/own-coordinates/%s/%s" % (m, cls),
                            "H^%d d(%s, %s) = %.12g, closed-form %s metric on the library's own coordinates gives %.12g" % (
                                n, name(i, a), name(j, b), d, m, dm))
        # (b) one object per (point, variant), used over and over: the full matrix
        objs = [[fresh(i, a) for a in range(V)] for i in range(N)]
        for i, a, j, b in itertools.product(range(N), range(V), range(N), range(V)):
            D[i, a, j, b] = judge(objs[i][a], objs[j][b], i, a, j, b, "re-used")
            t += 1
    ok = np.isfinite(D)
    # symmetry
    Dt = D.transpose(2, 3, 0, 1)
    bad = np.argwhere(ok & np.isfinite(Dt) & ~(np.abs(D - Dt) <= 2.0 * TOLM[:, None, :, None]))
    if len(bad):
        i, a, j, b = bad[0]
        add("close/symmetry", "H^%d: d(x,y)=%.12g but d(y,x)=%.12g for x=%s %r, y=%s %r" % (
            n, D[i, a, j, b], D[j, b, i, a], CLOSE_VARIANTS[a], pts[i].tolist(), CLOSE_VARIANTS[b], pts[j].tolist()))
    # triangle inequality over all triples of (point, variant) objects
    tight = -1
    if np.all(ok) and not wrong:
        M = D.reshape(N * V, N * V)
        TM = np.repeat(np.repeat(TOLM, V, axis=0), V, axis=1)
        slack = M[:, :, None] + M[None, :, :] - M[:, None, :]
        allow = TM[:, :, None] + TM[None, :, :] + TM[:, None, :]
        bad = np.argwhere(slack < -allow)
        if len(bad):
            x, y, z = bad[0]
            add("close/triangle-inequality/%s" % cls,
                "H^%d: d(x,z)=%.9g > d(x,y)+d(y,z)=%.9g+%.9g for x=%r y=%r z=%r (%d triples)" % (
                    n, M[x, z], M[x, y], M[y, z], pts[x // V].tolist(), pts[y // V].tolist(), pts[z // V].tolist(), len(bad)))
        tight = int(np.sum(slack < allow))
    # the whole cluster as one composite Point against the cluster shifted by one place
    for a in range(V):
        m, r = CLOSE_VARIANTS[a]
        m2, r2 = CLOSE_VARIANTS[(a + 3) % V]
        P = build(np.stack([oracle_coords(m, k, r) for k in pts]), m)
        for sh in (1, 0):
            idx = [(i + sh) % N for i in range(N)]
            Q = build(np.stack([oracle_coords(m2, pts[i], r2) for i in idx]), m2)
            d = np.asarray(_dist(P, Q))
            t += 1
            want = np.array([T[i, idx[i]] for i in range(N)])
            tol = np.array([TOLM[i, idx[i]] for i in range(N)])
            if d.shape != (N,) or d.dtype.kind != "f":
                add("close/composite/distance-type", "H^%d composite cluster: distance has shape %r dtype %s" % (n, d.shape, d.dtype))
            elif not np.all(np.abs(d - want) <= tol):      # NaN fails too
                add("close/composite/%s/%s" % ("nan" if np.any(np.isnan(d)) else "value", cls),
                    "H^%d composite cluster %r (from %s*%g) to the same cluster shifted by %d (from %s*%g): distances %r, expected %r" % (
                        n, [p.tolist() for p in pts], m, r, sh, m2, r2, d.tolist(), want.tolist()))
    return {"v": v, "t": t, "o": "%d/%g/%s/%d/%d" % (n, s, cls, tight, len(v)), "nt": True}


# ------------------------------------------------------------------------------------------
# model names: "any supported model" can be named in every way hyperbolic.Model documents -- the enum member
# (aliases included: Model.KLEINIAN / Model.AFFINE are the Klein model, Model.HALFPLANE the half-space model) or a
# string matching any alias NAME, case-insensitively (the module documentation itself reads coords(model="halfplane")).
# Every way of naming a model is that model: same coordinates read, same point built.
# ------------------------------------------------------------------------------------------
MODEL_ALIASES = {"poincare": ["POINCARE"], "klein": ["KLEIN", "KLEINIAN", "AFFINE"], "halfspace": ["HALFSPACE", "HALFPLANE"],
                 "hyperboloid": ["HYPERBOLOID"], "projective": ["PROJECTIVE"]}
NAME_FORMS = ["enum", "upper", "lower", "capitalized", "mixed"]


def model_name(alias, form):
    """The object handed to the library as `model` (resolved inside the case function: cases stay JSON-able)."""
    if form == "enum":
        from geometry_tools import hyperbolic
        return getattr(hyperbolic.Model, alias)
    return {"upper": alias, "lower": alias.lower(), "capitalized": alias.capitalize(),
            "mixed": alias.capitalize().swapcase()}[form]


def case_model_names(case):
    from geometry_tools import hyperbolic
    n, canon, alias, form, ideal = case["n"], case["canon"], case["alias"], case["form"], case["ideal"]
    pts = [np.asarray(k, dtype=float) for k in case["pts"]]
    cls = "ideal" if ideal else "interior"
    v, t, seen = [], 0, set()
    worst = 0.0

    def add(key, msg):
        if key not in seen:
            seen.add(key)
            v.append({"key": key, "msg": msg})

    name = model_name(alias, form)
    label = "Model.%s" % alias if form == "enum" else repr(name)
    if form == "enum" and name is not getattr(hyperbolic.Model, MODEL_ALIASES[canon][0]):
        raise AssertionError("HARNESS: Model.%s is not the %s model" % (alias, canon))
    groups = [[k] for k in pts] + [pts]                 # every point alone, and all of them as one composite
    for grp in groups:
        kl = np.array(grp) if len(grp) > 1 else grp[0]
        rep = -0.3 if canon == "projective" else 1.0
        src = oracle_coords(canon, kl, rep)
        who = "H^%d %s point(s) %r, model named %s (the %s model)" % (n, cls, np.asarray(kl).round(4).tolist(), label, canon)
        # (a) build from the canonical-model coordinates under this name, through every constructor; all charts
        for via in CALLER_VIAS:
            arr = np.array(src, dtype=float)
            if via == "get_point":
                P = hyperbolic.get_point(arr, model=name)
            elif via == "coords-set":
                start = np.zeros(np.shape(kl)[:-1] + (n + 1,))
                start[..., 0] = 1.0
                start[..., 1] = 0.25
                P = hyperbolic.Point(start)
                P.coords(name, arr)
            else:
                P = hyperbolic.Point(arr, model=name)
            t += 1
            before = len(v)
            tt, w = check_all_charts(P, kl, ideal, "%s, built via %s" % (who, via), v)
            for x in v[before:]:
                x["key"] = "model-name/build/%s/%s" % (canon, form)
            t += tt
            worst = max(worst, w)
        # (b) read the coordinates under this name from a point built canonically: the canonical chart, and what
        #     the canonical name gives on an equal fresh point
        if not (ideal and canon == "hyperboloid"):
            m0, r0 = ("projective", 2.5) if canon != "projective" else ("klein", 1.0)
            P = build(oracle_coords(m0, kl, r0), m0)
            P0 = build(oracle_coords(m0, kl, r0), m0)
            got = np.asarray(P.coords(name))
            ref = np.asarray(P0.coords(canon))
            t += 4
            err, tol, bad = chart_error(canon, got, kl, ideal)
            if bad is not None or not err <= tol:
                add("model-name/read/%s/%s" % (canon, form), "%s: coords(%s) %s" % (
                    who, label, bad or "differs from the %s chart by %.3g (tol %.1g)" % (canon, err, tol)))
            elif got.shape != ref.shape or got.dtype != ref.dtype or not np.all(np.abs(got - ref) <= 1e-12 * (1.0 + np.abs(ref))):
                add("model-name/read-vs-canonical/%s/%s" % (canon, form), "%s: coords(%s) = %r but coords(%r) = %r on an equal point" % (
                    who, label, got.tolist(), canon, ref.tolist()))
            else:
                worst = max(worst, err / tol)
                # (c) round trip under the name: read, build back under the name, all charts
                back = hyperbolic.Point(np.array(got, dtype=float), model=name)
                t += 1
                before = len(v)
                tt, w = check_all_charts(back, kl, ideal, "%s, read with coords(%s) and built back" % (who, label), v)
                for x in v[before:]:
                    x["key"] = "model-name/round-trip/%s/%s" % (canon, form)
                t += tt
                worst = max(worst, w)
    uniq, ks = [], set()
    for x in v:
        if x["key"] not in ks:
            ks.add(x["key"])
            uniq.append(x)
    return {"v": uniq, "t": t, "o": "%d|%s|%s|%s|%s|%d|%d" % (n, cls, canon, alias, form, len(uniq), int(np.ceil(np.log10(worst + 1e-12)))),
            "nt": form != "lower" or alias.lower() != canon}


def model_name_cases(dims, lat):
    for n in dims:
        P, I = lat[n]
        for ideal in (False, True):
            pts = (I if ideal else P)[:4]
            for canon, aliases in MODEL_ALIASES.items():
                if ideal and canon == "hyperboloid":
                    continue
                for alias in aliases:
                    for form in NAME_FORMS:
                        yield {"n": n, "canon": canon, "alias": alias, "form": form, "ideal": ideal, "pts": pts}


# ------------------------------------------------------------------------------------------
def run(ctx):
    q = ctx.quick
    seed = ctx.seed
    dims = [1, 2, 3, 4] if q else [1, 2, 3, 4, 5]
    mgen = 4 if q else 14
    rmax = 0.9 if q else 0.99
    depth = 2 if q else 3
    ctx.rule = ("points = CORNER(n)+GENERIC(n) Klein lattice (mc/lattice.py; VERIF_SEED selects the irrational offset) "
                "and ideal directions; states of the model graph are explored breadth-first by reading coords(m') and "
                "rebuilding Point/get_point, merged on (point, last two (model, representative, constructor)); metric: "
                "every ordered pair x every (model, representative)^2, every triple, every composite shape. "
                "Non-trivial: a history with >= 1 transition; a composite with > 1 unit")
    ctx.assume("interior points have Klein radius <= %.2f; ideal directions are >= 0.2 rad away from the half-space point at infinity" % rmax)
    ctx.assume("hyperboloid coordinates READ from the library are compared exactly with the future-sheet vector (x0 > 0, <x,x> = -1) and its own "
               "metric is arccosh(-<x,y>) without absolute value; hyperboloid coordinates GIVEN to a constructor may lie on either sheet (variant "
               "hyperboloid*-1: the vector is then just another representative of the projective point)")
    ctx.assume("projective coordinates are compared up to a non-zero scalar")
    ctx.assume("hyperboloid coordinates of ideal points are not read (undefined)")
    ctx.assume("all input coordinates are floats (float64 everywhere; the caller-arrays section adds float32 arrays and integer-valued "
               "Poincare / half-space arrays)")
    ctx.tolerances["coords"] = "1e-9*(1+|value|): chart maps are well conditioned for |k| <= %.2f (measured error <= 1e-13)" % rmax
    ctx.tolerances["ideal coords"] = ("1e-6*(1+|value|)^2 for Poincare/half-space coordinates of ideal points: sqrt|1-|k|^2| of a "
                                      "rounded unit vector is ~1e-8 (measured 5e-8)")
    ctx.tolerances["distance"] = ("1e-9*(1+d) for distinct lattice points (d >= 0.05) AND for d(x,x) = 0 (x against itself, against an equal point built "
                                  "through any other model / representative): an equal point entered through another model is displaced by <= ~50 eps "
                                  "cosh^2 R <= 6e-13 at |k| <= 0.99, measured d(x,x) <= 2e-14; sqrt(2 eps) = 2.1e-8, the quantum of arccosh at 1 + rounding, "
                                  "is NOT tolerated (a distance evaluated as arccosh|<x,y>| near 1 fails). Only the closed-form model metrics that the "
                                  "ORACLE evaluates in floating point at equal points are compared in the 1e-6 class")
    ctx.tolerances["symmetry"] = "1e-9 (also for d(x,x))"
    ctx.tolerances["triangle"] = "1e-9 slack (distinct lattice points: the three distances carry errors <= 1e-13)"

    roots = []
    lat = {}
    for n in dims:
        P = [p.tolist() for p in lattice.klein_points(n, mgen, seed, rmax)]
        I = [d.tolist() for d in lattice.ideal_dirs(n, 4 if q else 8, seed)]
        lat[n] = (P, I)
        for k in P:
            for (m, r) in VARIANTS:
                roots.append([["root", n, "interior", k, m, r, not q]])
        for k in I:
            for (m, r) in IDEAL_VARIANTS:
                roots.append([["root", n, "ideal", k, m, r, not q]])
    ctx.bfs("model-graph", "checks.c01:case_models", roots, depth=depth, chunk=256,
            domains={"dimensions": dims, "interior points per dimension": {n: len(lat[n][0]) for n in dims},
                     "ideal points per dimension": {n: len(lat[n][1]) for n in dims},
                     "(model, representative)": VARIANTS, "depth": depth,
                     "constructors": VIAS if not q else "Point / get_point alternating over targets and levels"})

    cases = [{"n": n, "p": p, "q": qq, "same": i == j}
             for n in dims for i, p in enumerate(lat[n][0]) for j, qq in enumerate(lat[n][0])]
    ctx.product("metric-pairs", "checks.c01:case_pair", cases, chunk=8,
                domains={"dimensions": dims, "ordered pairs": len(cases), "(model, representative)^2": len(VARIANTS) ** 2})

    cases = [{"n": n, "p": p, "q": qq, "same": i == j}
             for n in dims for i, p in enumerate(lat[n][0][:4]) for j, qq in enumerate(lat[n][0][:4])]
    cases += [{"n": n, "p": k, "q": k, "same": True, "ideal": True} for n in dims for k in lat[n][1]]
    ctx.product("representative-scales", "checks.c01:case_rep_scales", cases, chunk=4,
                domains={"dimensions": dims, "scales of the projective representative": REP_SCALES,
                         "interior": "all ordered pairs (x = x included) of the first 4 lattice points x every ordered pair of scales; one composite whose units carry all the scales",
                         "ideal": "every ideal direction x every scale (charts only)",
                         "demands": "all charts = oracle charts of the point, <h,h> = -1 and round trip through the hyperboloid coordinates, distance = Klein metric "
                                    "= each model's closed-form metric on the library's own coordinates, symmetry"})
    ctx.assume("representative scales: non-zero factors of modulus 1e-12 .. 1e12 (squares stay far inside the float64 range; factors beyond 1e+-150 are out of domain)")

    cases = [{"n": n, "shift": s, "pts": lat[n][0]} for n in dims for s in range(len(VARIANTS))]
    ctx.product("metric-triples", "checks.c01:case_triangle", cases, chunk=1,
                domains={"dimensions": dims, "triples per case": {n: len(lat[n][0]) ** 3 for n in dims},
                         "variant shifts": len(VARIANTS)})

    fdims = [1, 2, 3] if q else [1, 2, 3, 4]
    ctx.product("far-points", "checks.c01:case_far", list(far_cases(fdims, seed, q)), chunk=8,
                domains={"dimensions": fdims, "hyperbolic radii": FAR_RADII, "start models": FAR_START,
                         "oracle": "closed forms in (R, u): (cosh R, sinh R u), tanh(R) u, tanh(R/2) u"})
    ctx.tolerances["far points"] = ("1e-9 scaled by max(1, 1e-7 cosh^2 R) when the point is GIVEN in Klein/Poincare/half-space coordinates "
                                    "(1-|k|^2 = 1/cosh^2 R is then only known to eps cosh^2 R); exact class from hyperboloid coordinates")

    cdims = [1, 2, 3, 4]
    cscales = CLOSE_SCALES_QUICK if q else CLOSE_SCALES       # away from the origin; the origin cluster takes every scale
    cases = [{"n": n, "s": s, "pts": close_cluster(a, s, n, seed)} for n in cdims
             for a in lattice.klein_points(n, 2 if q else 6, seed, 0.9) for s in (cscales if np.any(a) else CLOSE_SCALES)]
    ctx.product("close-clusters", "checks.c01:case_close", cases, chunk=1,
                domains={"dimensions": cdims, "centres per dimension": {n: len(lattice.klein_points(n, 2 if q else 6, seed, 0.9)) for n in cdims},
                         "scales (Klein separation)": {"origin": CLOSE_SCALES, "other centres": cscales},
                         "cluster": "centre a, a+-s w1, a+s/2 w1, a+s w2, a+s g (w1 radial, w2 orthogonal, g generic)",
                         "(model, representative)^2": "%d re-used objects, %d x (variant, variant+4) fresh objects" % (len(CLOSE_VARIANTS) ** 2, len(CLOSE_VARIANTS)),
                         "per case": "all ordered pairs incl. x=x, symmetry, all triples of (point, variant), composite vs shifted composite"})
    ctx.assume("close clusters: centres of Klein radius <= 0.9, separations 1e-6 .. 1e-2 (so distances >= 5e-7)")
    ctx.tolerances["close pairs"] = ("|d - truth| <= e + 1e-13 + 1e-9 d with e = 16 eps cosh R_x cosh R_y <= 2e-14: the conditioning of the INPUT (unit "
                                     "hyperboloid vectors known to a few eps relative; measured |d - truth| <= 1.2 eps cosh R_x cosh R_y from projective / hyperboloid "
                                     "input and <= 34 eps cosh R_x cosh R_y across all models, i.e. <= 0.025 of the tolerance over 8 seeds), so nearby distinct points have their small positive distance to ~1e-13 absolute, d(x,x) = 0 "
                                     "to 1e-13, symmetry at twice that and the triangle inequality with slack = sum of the three tolerances (~3e-13). "
                                     "The arccosh conditioning min(sqrt(2 e), 2 e / sinh d) (1.5e-8 at d = 1e-6) is granted only to closed-form model "
                                     "metrics evaluated in floating point (oracle coordinates / the library's own coordinates), at twice that")
    ctx.tolerances["far self/close distances"] = ("d(x,x), d(x, equal copy from another model), d(x, same ray s further) for R <= 14: "
                                                  "128 eps cosh R cosh(R+s) + 32 eps cosh^2 (R+s) + 1e-9 (conditioning of the input: each point is known "
                                                  "to ~eps cosh^2 R; measured <= 16 eps cosh^2 R over 8 seeds; the sqrt(2 eps) cosh R of an arccosh at 1 + "
                                                  "rounding is not tolerated for R <= 12); x.distance(x) "
                                                  "of one object <= 1e-9 at every R; finite, >= 0 and not NaN unconditionally")

    ctx.product("point-histories", "checks.c01:case_point_history", list(point_history_cases((2, 3) if q else (1, 2, 3, 4), seed)), chunk=32,
                domains={"ops": PH_OPS, "sequences": "all op sequences of length <= 3 not ending in a query", "roots": "a (3,) composite of interior units, and one mixing interior units with an ideal unit",
                         "oracle": "per-unit closed-form charts of the expected points (tracked alongside) and Klein-metric distances between the interior units"})

    shapes = lattice.SHAPES_QUICK if q else lattice.shapes()
    cases = []
    for n in dims:
        for sh in shapes:
            for vi in range(len(VARIANTS)):
                cases.append({"n": n, "shape": list(sh), "variant": vi, "via": VIAS[(vi + len(sh)) % 2],
                              "ideal": False, "pts": lat[n][0]})
            for vi in range(len(IDEAL_VARIANTS)):
                cases.append({"n": n, "shape": list(sh), "variant": vi, "via": VIAS[(vi + len(sh)) % 2],
                              "ideal": True, "pts": lat[n][1]})
    ctx.product("composite-shapes", "checks.c01:case_shape", cases, chunk=16,
                domains={"dimensions": dims, "shapes": [list(s) for s in shapes], "variants": len(VARIANTS) + len(IDEAL_VARIANTS)})

    cases = list(caller_cases(dims, lat, q))
    ctx.product("caller-arrays", "checks.c01:case_caller", cases, chunk=32,
                domains={"dimensions": dims, "(model, representative)": VARIANTS, "float packagings (dtype, layout)": CALLER_PACKS,
                         "integer packagings (Poincare / half-space coordinates only)": CALLER_INT_PACKS,
                         "constructors": CALLER_VIAS, "shapes": CALLER_SHAPES,
                         "demands": "kept array bitwise unchanged after construction and after every coords()/distance(); coords of the "
                                    "first and of second points (every constructor) built from the same kept array = charts of the array's "
                                    "numbers; distance between them 0; distance to a point from another kept array = Klein metric = the "
                                    "model's closed-form metric on the two kept arrays"})
    cases = list(model_name_cases(dims, lat))
    ctx.product("model-names", "checks.c01:case_model_names", cases, chunk=16,
                domains={"dimensions": dims, "model names": MODEL_ALIASES, "forms of each name": NAME_FORMS,
                         "points": "the first 4 interior lattice points / ideal directions, each alone and all as one composite",
                         "constructors": CALLER_VIAS,
                         "demands": "a point built from the model's coordinates under this name (Point, get_point, coords setter) has the "
                                    "oracle charts; coords(name) of a canonically built point = the model's chart = coords(canonical name) "
                                    "on an equal point; reading with coords(name) and building back with model=name gives the same point"})
    ctx.assume("model names: the members of hyperbolic.Model (aliases KLEINIAN, AFFINE -> Klein, HALFPLANE -> half-space) and strings equal to a member "
               "NAME in upper, lower, capitalised or mixed case (Model: 'compared to strings ... True if the strings match any alias name (case insensitive)')")
    ctx.assume("caller arrays: float64 (C-contiguous, strided view, Fortran order, read-only), float32 (interior points of Klein radius <= 0.9 only; coordinates to "
               "1e-4 (1+|c|)^2, distances to the arccosh conditioning of a float32 Minkowski product + 1e-4 (1+d)), and integer-valued int64/int32 arrays in the Poincare and half-space models only (the "
               "projective/hyperboloid/Klein setters keep the dtype they are given; integer arrays there are out of domain)")
