"""C03 - applying transformations is a left group action on every kind of object.

Three families (DESIGN.md 5/C03):
  (i)   projective, exact: histories  X, g1@X, g2@(g1@X), ...  over an alphabet of unimodular integer and
        Gaussian-integer matrices, every object class, composite shapes (), (2,), (2,3), dimension 1..3;
  (ii)  hyperbolic, with tolerance: the same histories over an isometry alphabet for the twelve hyperbolic
        classes, primary and derived data compared row-projectively and derived data recomputed by an oracle;
  (iii) representations: every word of length <= L over {a,b,A,B}: rep[w] @ point == M_w . p^T;
  (iv)  mixed classes: A in {projective.Transformation, hyperbolic.Isometry} (isometric, unimodular non-isometric,
        scaled, and products across the two classes) acting on X of either module (transformations included), single
        and composite: type / composite shape of X in every broadcast mode, A @ X == A.apply(X), inverse, associativity
        with a factor of the other class, identity of the other module.
  (i')  projective-illcond: family (i) again over an alphabet of ILL-CONDITIONED but exactly invertible transformations
        (I + t E_ij with t up to 2^30 / 10^9, power-of-two diagonal maps, the boost with eigenvalues 2^15, 2^-15;
        condition numbers 2^30 .. 2^60): the inverse laws with the exact tolerance where every float64 operation is
        exact and with 64*eps*cond otherwise (inv_tol); the same three kinds of A as extra routes of family (iv).
  (iii') representation histories: ONE representation object through evaluations and generator (re-)assignments;
        rep[w] @ point always belongs to the current generators; also with a caller that recycles in place (T[...] = other)
        the Transformation / Isometry objects it has assigned: the generator is the transformation that was assigned.
  (v)   independent image: Y = A @ X / A.apply(X, mode) for A exactly or nearly the identity (every way of obtaining one:
        identity(), Transformation / Isometry(np.identity), rep[''], rep['aA'], inv @ A, composites of identities) and
        generic A, X of every class of both modules, single and composite; then one of Y, X, A is edited in place by item
        assignment: the other two keep exactly their primary / derived / dual data, and the laws still hold for X.

The oracle for the action itself is the definition "every coordinate row v of the object becomes M v"
(M the matrix acting on column vectors), written with plain einsum / matmul on the unit rows; it never calls
utils.matrix_product.
"""
import itertools
import math

import numpy as np

from mc import lattice
from mc.oracle import hyp
from mc.oracle.derived import edges_of, ideal_endpoints, tangent_aux, rows_err, pair_err_unordered

TOL_EXACT = 1e-12
TOL_SIN = 1e-8
TOL_IDEAL = 1e-6

PROJ_CLASSES = ["Point", "PointPair", "Polygon", "Simplex", "Subspace", "Transformation", "ndarray"]
HYP_CLASSES = ["Point", "IdealPoint", "DualPoint", "PointPair", "Segment", "Geodesic", "Polygon",
               "TangentVector", "Horosphere", "HorosphereArc", "Hyperplane", "Subspace"]
SHAPES = [[], [2], [2, 3]]
PROJ_GENS = ["E01", "E10", "Elast", "P", "S", "G01", "Gd", "Gm"]
# ill-conditioned but exactly invertible transformations (condition number 1e9 .. 1e18, far beyond any fixed
# "numerically singular" cut-off an inversion routine might apply, yet with an inverse that is an exact float64 matrix)
BIG, MID = 2.0 ** 30, 2.0 ** 15
ILL_UNIPOTENT = ["Ub", "Lb", "Ud", "Gb", "Um"]       # I + t E_ij, t <= 2^30 (a power of two except Ud: t = 10^9)
ILL_DIAGONAL = ["Db"]                                 # powers of two on the diagonal: exact scaling
ILL_MODERATE = ["Lm", "Hm"]                           # condition ~ 2^30, inverse NOT exact in LU: eps * cond tolerance
ILL_GENS = ILL_UNIPOTENT + ILL_DIAGONAL + ILL_MODERATE
ILL_ALPHABET = ILL_GENS + ["P", "E10"]
ALL_GENS = PROJ_GENS + ILL_GENS
EPS = float(np.finfo(float).eps)


def V(key, msg):
    return {"key": key, "msg": msg}


def size(shape):
    n = 1
    for s in shape:
        n *= s
    return n


# ------------------------------------------------------------------------------------------------
# family (i): exact projective action
# ------------------------------------------------------------------------------------------------
_ALLV = {}


def int_row(k, n):
    """k-th row of a fixed enumeration of the non-zero integer vectors of {-2..2}^n (distinct for
    distinct k < 5^n - 1)."""
    if n not in _ALLV:
        _ALLV[n] = [v for v in itertools.product(range(-2, 3), repeat=n) if any(v)]
    allv = _ALLV[n]
    return np.array(allv[(7 + 13 * k) % len(allv)], dtype=float)


def rows(k0, count, n, cx):
    out = []
    for k in range(k0, k0 + count):
        r = int_row(k, n)
        if cx:
            r = r + 1j * int_row(k + 41, n)
        out.append(r)
    return np.array(out)


def unit_rows(cls, n):
    return {"Point": 1, "ndarray": 1, "PointPair": 2, "Polygon": 3, "Simplex": n, "Subspace": 2,
            "Transformation": n}[cls]


def proj_unit(cls, k, n, cx):
    """Integer-valued (float / complex dtype) data of the k-th unit of a class."""
    r = unit_rows(cls, n)
    if cls in ("Point", "ndarray"):
        return rows(5 * k, 1, n, cx)[0]
    if cls == "Transformation":
        m = np.eye(n, dtype=complex if cx else float)
        src = rows(5 * k, n, n, cx)
        for i in range(n):
            for j in range(i + 1, n):
                m[i, j] = src[i, j]
        m[n - 1, 0] = 1 + k            # a Transformation used as the OBJECT: pairwise distinct, non-triangular
        return m
    return rows(5 * k, r, n, cx)


def proj_data(root):
    n = root["d"] + 1
    shape = tuple(root["shape"])
    units = [proj_unit(root["cls"], k, n, root["cx"]) for k in range(size(shape))]
    return np.array(units).reshape(shape + units[0].shape)


def build_proj(root):
    from geometry_tools import projective as P
    data = proj_data(root)
    cls = root["cls"]
    if cls == "ndarray":
        return data.copy(), data, None
    C = getattr(P, cls)
    obj = C(data.copy())
    aux = edges_of(data) if cls == "Polygon" else None
    return obj, data, aux


def tmat(name, n):
    """Alphabet of unimodular integer / Gaussian-integer matrices acting on COLUMN vectors."""
    cx = name.startswith("G")
    m = np.eye(n, dtype=complex if cx else float)
    if name == "E01":
        m[0, 1] = 1
    elif name == "E10":
        m[1, 0] = 1
    elif name == "Elast":
        m[n - 1, 0] = 2
    elif name == "P":
        m = np.roll(np.eye(n), 1, axis=0)
    elif name == "S":
        m[0, 0] = -1
    elif name == "G01":
        m[0, 1] = 1j
    elif name == "Gd":
        m[0, 0] = 1j
    elif name == "Gm":
        m[:2, :2] = np.array([[1, 1j], [1j, 0]])
    elif name == "Ub":
        m[0, 1] = BIG
    elif name == "Lb":
        m[n - 1, 0] = BIG
    elif name == "Ud":
        m[0, n - 1] = 1.0e9
    elif name == "Gb":
        m[0, 1] = BIG * 1j
    elif name == "Um":
        m[0, 1] = MID
    elif name == "Db":
        m = np.diag([1.0, BIG, 1.0 / BIG, MID][:n])
    elif name == "Lm":
        m[1, 0] = MID + 1.0                     # not a power of two: the pivoted LU divides by it
    elif name == "Hm":
        # the boost with eigenvalues 2^15, 2^-15 (entries exact in float64), determinant 1, condition 2^30
        c, s_ = (MID + 1.0 / MID) / 2.0, (MID - 1.0 / MID) / 2.0
        m[:2, :2] = np.array([[c, s_], [s_, c]])
    else:
        raise ValueError(name)
    return m


def make_T(name, n):
    """The user-facing ways of saying 'the map p -> M p': column matrix, or its transpose as row matrix."""
    from geometry_tools import projective as P
    m = tmat(name, n)
    if ALL_GENS.index(name) % 2 == 0:
        return P.Transformation(m.copy(), column_vectors=True), m
    return P.Transformation(m.T.copy()), m


def act(W, data):
    """Oracle: every coordinate row v becomes W v."""
    return np.einsum("ij,...j->...i", W, data)


def data_of(obj):
    return obj if isinstance(obj, np.ndarray) else obj.proj_data


def aux_of(obj):
    return None if isinstance(obj, np.ndarray) else getattr(obj, "aux_data", None)


def close(a, b, tol):
    a, b = np.asarray(a), np.asarray(b)
    if a.shape != b.shape:
        return False
    scale = 1.0 + float(np.max(np.abs(b))) if b.size else 1.0
    return bool(np.all(np.abs(a - b) <= tol * scale))


def cmp_obj(v, tag, cls, got, exp_data, exp_aux, tol):
    """Compare a library result with expected primary / auxiliary arrays."""
    gd = data_of(got)
    if gd is None or np.shape(gd) != np.shape(exp_data):
        v.append(V("%s/shape/%s" % (tag, cls), "primary data shape %r, expected %r" % (np.shape(gd), np.shape(exp_data))))
        return
    if not close(gd, exp_data, tol):
        v.append(V("%s/primary/%s" % (tag, cls), "primary data\n%r\nexpected\n%r" % (gd, exp_data)))
    if exp_aux is not None:
        ga = aux_of(got)
        if ga is None or np.shape(ga) != np.shape(exp_aux):
            v.append(V("%s/aux-shape/%s" % (tag, cls), "auxiliary data shape %r, expected %r" % (np.shape(ga), np.shape(exp_aux))))
        elif not close(ga, exp_aux, tol):
            v.append(V("%s/aux/%s" % (tag, cls), "auxiliary data\n%r\nexpected\n%r" % (ga, exp_aux)))


def is_gauss_int(a):
    a = np.asarray(a)
    return bool(np.all(np.isfinite(a)) and np.all(np.real(a) == np.round(np.real(a))) and np.all(np.imag(a) == np.round(np.imag(a))))


def exact_dot(M, Y):
    """Every product and partial sum of `rows of Y -> M rows` is an exact float64 operation: (Gaussian) integer
    operands, sum of the absolute values of the terms below 2^51."""
    if Y is None:
        return True
    if not (is_gauss_int(M) and is_gauss_int(Y)):
        return False
    return bool(np.max(np.einsum("ij,...j->...i", np.abs(M), np.abs(np.asarray(Y)))) < 2.0 ** 51)


def absmax(a):
    return float(np.max(np.abs(a))) if a is not None and np.size(a) else 0.0


def inv_tol(M, name=None, before=(), after=()):
    """Tolerance (relative to 1 + max|expected|) of an inverse law for the column matrix M, or None if the law is
    not decidable in float64.
      * 1e-9 as long as 64*eps*cond(M) stays below it (the whole well-conditioned alphabet);
      * M a power-of-two diagonal matrix: 1e-9 (scaling by powers of two is exact);
      * M = I + t E_ij a single generator (inverse I - t E_ij): every rational inversion algorithm returns the
        inverse with entrywise relative error O(eps), so inv @ (M @ Y) carries at most
        64*eps*max(|M| |Y|, |M^-1| |M Y|) absolute error; for t a power of two and integer data of bounded size
        every operation is exact and 1e-9 is demanded;
      * otherwise 64*eps*cond(M); undecided (None) above 1e-3.
    `before` = arrays of the object before M was applied (the expected value), `after` = arrays of its image."""
    tol = 64.0 * EPS * float(np.linalg.cond(M))
    if tol <= 1e-9:
        return 1e-9
    if name in ILL_DIAGONAL:
        return 1e-9
    if name in ILL_UNIPOTENT:
        Mi = 2.0 * np.eye(M.shape[0]) - M                  # exact inverse of I + t E_ij
        before = [d for d in before if d is not None]
        after = [d for d in after if d is not None]
        if name != "Ud" and all(exact_dot(M, d) for d in before) and all(exact_dot(Mi, d) for d in after):
            return 1e-9
        bound = max([absmax(np.einsum("ij,...j->...i", np.abs(M), np.abs(d))) for d in before] +
                    [absmax(np.einsum("ij,...j->...i", np.abs(Mi), np.abs(d))) for d in after] + [1.0])
        scale = 1.0 + min([absmax(d) for d in before] + [bound])
        tol = min(tol, max(1e-9, 64.0 * EPS * bound / scale))
    return tol if tol <= 1e-3 else None


def case_proj(hist):
    from geometry_tools import projective as P
    root, ops = hist[0], hist[1:]
    gens = ILL_ALPHABET if root.get("alpha") == "ill" else PROJ_GENS
    cls, n, shape = root["cls"], root["d"] + 1, tuple(root["shape"])
    X, X0, A0 = build_proj(root)
    v = []
    t = 0
    Ts, Ms = [], []
    for name in ops:
        T, m = make_T(name, n)
        Ts.append(T)
        Ms.append(m)
    # sequential application, partial products (transformation @ transformation) and the oracle word matrix
    Y = [X]
    W = [np.eye(n)]
    Pk = [P.identity(root["d"])]
    for T, m in zip(Ts, Ms):
        Y.append(T @ Y[-1])
        W.append(m @ W[-1])
        Pk.append(T @ Pk[-1])
        t += 2
    k = len(ops)
    for i in range(k + 1):
        if cls != "ndarray" and type(Y[i]) is not type(X):
            v.append(V("proj/type/%s" % cls, "after %d applications the object is a %s" % (i, type(Y[i]).__name__)))
        if cls != "ndarray":
            if tuple(Y[i].shape) != shape:
                v.append(V("proj/composite-shape/%s" % cls, "composite shape %r, expected %r" % (Y[i].shape, shape)))
            if (Y[i].unit_ndims, Y[i].aux_ndims) != (X.unit_ndims, X.aux_ndims):
                v.append(V("proj/unit-ndims/%s" % cls, "unit/aux ndims changed to %r" % ((Y[i].unit_ndims, Y[i].aux_ndims),)))
    if v:
        return {"v": v, "t": t, "o": "type", "nt": True, "key": None, "ops": []}
    expY = act(W[k], X0)
    expA = None if A0 is None else act(W[k], A0)
    # the action is what the oracle says (exact integer arithmetic on both sides)
    cmp_obj(v, "proj/seq-vs-oracle", cls, Y[k], expY, expA, TOL_EXACT)
    if not close(Pk[k].proj_data, W[k].T, TOL_EXACT):
        v.append(V("proj/product-matrix", "T_k@...@T_1 has row matrix\n%r\nexpected transpose of\n%r" % (Pk[k].proj_data, W[k])))
    # (T_k @ ... @ T_1) @ X == T_k @ (... (T_1 @ X))
    cmp_obj(v, "proj/word-product", cls, Pk[k] @ X, expY, expA, TOL_EXACT)
    t += 1
    if k >= 2:
        # (A @ B) @ Z == A @ (B @ Z) with Z the state two steps back
        AB = Ts[k - 1] @ Ts[k - 2]
        cmp_obj(v, "proj/assoc", cls, AB @ Y[k - 2], data_of(Y[k]), aux_of(Y[k]), TOL_EXACT)
        t += 2
    if k >= 3:
        # the last three transformations of the word, acting on the state three steps back
        left = (Ts[k - 1] @ Ts[k - 2]) @ Ts[k - 3]
        right = Ts[k - 1] @ (Ts[k - 2] @ Ts[k - 3])
        if not close(left.proj_data, right.proj_data, TOL_EXACT):
            v.append(V("proj/assoc/transformations", "(A@B)@C != A@(B@C)"))
        cmp_obj(v, "proj/assoc3", cls, left @ Y[k - 3], data_of(Y[k]), aux_of(Y[k]), TOL_EXACT)
        t += 5
    # identity
    cmp_obj(v, "proj/identity", cls, P.identity(root["d"]) @ Y[k], data_of(Y[k]), aux_of(Y[k]), TOL_EXACT)
    t += 1
    # inverse (np.linalg.inv of a unimodular matrix: a few ulps, hence 1e-9 and not exact)
    if k >= 1:
        inv = Ts[k - 1].inv()
        if type(inv) is not type(Ts[k - 1]):
            v.append(V("proj/type/inverse", "inv() returned a %s" % type(inv).__name__))
        prev = (data_of(Y[k - 1]), aux_of(Y[k - 1]))
        tol = inv_tol(Ms[k - 1], ops[-1], before=prev, after=(data_of(Y[k]), aux_of(Y[k])))
        if tol is not None:
            ill = "" if ops[-1] in PROJ_GENS else "/ill-conditioned"
            cmp_obj(v, "proj/inverse" + ill, cls, inv @ Y[k], prev[0], prev[1], tol)
            cmp_obj(v, "proj/inverse-product" + ill, cls, (inv @ Ts[k - 1]) @ Y[k - 1], prev[0], prev[1], tol)
            cmp_obj(v, "proj/inverse-product" + ill, cls, (Ts[k - 1] @ inv) @ Y[k - 1], prev[0], prev[1], tol)
            t += 6
    if k >= 1:
        # transformations that have already answered a query (inv) are composed again: a product must
        # not inherit anything from its factors (e.g. a memoised inverse carried along by copy())
        oname = gens[(gens.index(ops[-1]) + 3) % len(gens)]
        other, mo = make_T(oname, n)
        other.inv()
        for (L_, R_, ML, MR, tag) in ((other, Ts[k - 1], mo, Ms[k - 1], "queried-right-factor"),
                                      (Ts[k - 1], other, Ms[k - 1], mo, "queried-left-factor")):
            tol = inv_tol(ML @ MR)
            if tol is None:
                continue            # the product is not invertible in float64 (condition > 1e-3 / (64 eps))
            Q = L_ @ R_
            Qi = Q.inv()
            t += 4
            if not close(Qi.proj_data, np.linalg.inv(ML @ MR).T, tol):
                v.append(V("proj/inverse-of-product/%s" % tag, "(%s @ %s).inv() has row matrix\n%r\nexpected\n%r" % (
                    oname if L_ is other else ops[-1], ops[-1] if L_ is other else oname, Qi.proj_data, np.linalg.inv(ML @ MR).T)))
            cmp_obj(v, "proj/inverse-of-product/%s/action" % tag, cls, Qi @ (Q @ Y[k - 1]), data_of(Y[k - 1]), aux_of(Y[k - 1]), tol)
    # derived data recomputed from the primary data of the result
    if cls == "Polygon":
        yk = Y[k]
        if not close(yk.aux_data, edges_of(yk.proj_data), TOL_EXACT):
            v.append(V("proj/aux-recomputed/Polygon", "edges are not (v_i, v_i+1) of the transformed vertices"))
        if not close(yk.get_edges().proj_data, edges_of(expY), TOL_EXACT):
            v.append(V("proj/aux-recomputed/Polygon.get_edges", "get_edges() differs from the edges of the oracle image"))
    Wk = W[k]
    key = repr((root["d"], cls, shape, root["cx"], tuple((np.round(Wk.flatten(), 6) + 0.0).tolist())))
    return {"v": v, "t": t, "o": repr(tuple(np.round(np.asarray(expY).flatten()[:4], 6).tolist())),
            "nt": k >= 1 and not np.allclose(Wk, np.eye(n)), "key": key,
            "ops": [] if v else list(gens)}


# ------------------------------------------------------------------------------------------------
# family (ii): hyperbolic objects, isometry alphabet
# ------------------------------------------------------------------------------------------------
def hyp_gens(n):
    return ["org0", "org1", "rot", "lox", "refl"] + (["sl2a", "sl2b"] if n == 2 else ["ell"])


def refl_matrix(n):
    """Oracle reflection in the hyperplane with spacelike normal m (column convention): I - 2 m m^T J / <m,m>."""
    m = np.array([0.3, 1.0, 0.2, -0.4][:n + 1])
    J = hyp.J(n)
    return np.eye(n + 1) - 2.0 * np.outer(m, m) @ J / float(m @ J @ m)


def make_iso(name, n, seed):
    from geometry_tools import hyperbolic as H
    if name in ("org0", "org1"):
        pts = hyp_alphabet_points(n, seed)[0]
        k = pts[-2] if name == "org0" else pts[-7]
        return H.Point(np.array(k, dtype=float), model="klein").origin_to()
    if name == "rot":
        return H.Isometry.standard_rotation(0.7, dimension=n)
    if name == "lox":
        return H.Isometry.standard_loxodromic(n, 1.5)
    if name == "refl":
        return H.Isometry(refl_matrix(n), column_vectors=True)
    if name == "sl2a":
        return H.sl2_iso(np.array([[1.0, 1.0], [0.0, 1.0]]))
    if name == "sl2b":
        return H.sl2_iso(np.array([[2.0, 1.0], [1.0, 1.0]]))
    if name == "ell":
        return H.Isometry.elliptic(3, np.array([[0.0, 1.0, 0.0], [0.0, 0.0, 1.0], [1.0, 0.0, 0.0]]))
    raise ValueError(name)


_PTS = {}


def hyp_alphabet_points(n, seed):
    if (n, seed) not in _PTS:       # pure function of (n, seed); cached only for speed
        _PTS[(n, seed)] = (lattice.klein_points(n, m_generic=16, seed=seed),
                           lattice.ideal_dirs(n, m_generic=8, seed=seed))
    return _PTS[(n, seed)]


def timelike_row(k):
    return hyp.klein_to_projective(k)


def null_row(d):
    return np.concatenate([[1.0], d])


def horo_second_point(c, p, u):
    """Point on the horosphere centred at the null vector c through p: mirror image of p in a hyperplane
    through c (normal m orthogonal to c)."""
    m = u - (hyp.mink(u, c) / hyp.mink(p, c)) * p
    return p - 2.0 * hyp.mink(p, m) / hyp.mink(m, m) * m


def hyp_unit_data(cls, k, n, seed):
    """Oracle coordinates (projective rows) of the k-th unit of a hyperbolic class."""
    K, I = hyp_alphabet_points(n, seed)
    kp = lambda j: timelike_row(K[(1 + j) % len(K)])
    ip = lambda j: null_row(I[j % len(I)])
    if cls == "Point":
        return kp(k)
    if cls == "IdealPoint":
        return ip(k)
    if cls == "DualPoint":
        return np.concatenate([[0.4 - 0.1 * (k % 3)], I[k % len(I)]])
    if cls in ("PointPair", "Segment"):
        return np.stack([kp(2 * k), kp(2 * k + 1)])
    if cls in ("Geodesic", "Subspace"):
        return np.stack([ip(2 * k), ip(2 * k + 1)])
    if cls == "Polygon":
        return np.stack([kp(3 * k), kp(3 * k + 1), kp(3 * k + 2)])
    if cls == "TangentVector":
        vec = np.concatenate([[0.3], I[(k + 2) % len(I)]]) * (1.0 + 0.5 * k)
        return np.stack([kp(k), vec])
    if cls == "Horosphere":
        return np.stack([ip(k), kp(k + 3)])
    if cls == "HorosphereArc":
        c, p = ip(k), kp(k + 3)
        u = np.concatenate([[0.0], I[(k + 3) % len(I)]])
        return np.stack([c, p, horo_second_point(c, p, u)])
    if cls == "Hyperplane":
        return None
    raise ValueError(cls)


HYPERPLANE_NORMALS = [[0.3, 1.0, 0.2, 0.5], [0.1, 0.4, 1.0, -0.3], [0.2, -0.7, 0.6, 0.5], [-0.2, 0.9, 0.3, 0.1],
                      [0.4, 0.8, -0.9, 0.2], [0.0, 0.3, 1.0, 0.6]]


def build_hyp(root):
    """Build the library object; returns (object, primary data, oracle auxiliary data or None)."""
    from geometry_tools import hyperbolic as H
    cls, n, shape, seed = root["cls"], root["n"], tuple(root["shape"]), root["seed"]
    N = size(shape)
    if cls == "Hyperplane":
        units = [H.Hyperplane(np.array(HYPERPLANE_NORMALS[k][:n + 1])).proj_data for k in range(N)]
        data = np.array(units).reshape(shape + units[0].shape)
        J = hyp.J(n)
        gram = data @ J @ np.swapaxes(data, -1, -2)
        ok = (np.all(np.abs(gram[..., 0, 1:]) < 1e-9) and np.all(gram[..., 0, 0] > 1e-3) and
              np.all(np.abs(np.diagonal(gram, axis1=-2, axis2=-1)[..., 1:]) < 1e-9))
        if not ok:
            return None, None, None     # constructor outside its contract: C15's business, not ours
        return H.Hyperplane(data.copy()), data, None
    units = [hyp_unit_data(cls, k, n, seed) for k in range(N)]
    data = np.array(units).reshape(shape + units[0].shape)
    aux = None
    if cls == "Point":
        obj = H.Point(hyp.to_klein("projective", data), model="klein")
    elif cls in ("IdealPoint", "DualPoint", "Subspace"):
        obj = getattr(H, cls)(data.copy())
    elif cls == "PointPair":
        obj = H.PointPair(data[..., 0, :].copy(), data[..., 1, :].copy())
    elif cls == "Segment":
        obj = H.Segment(H.Point(data[..., 0, :].copy()), H.Point(data[..., 1, :].copy()))
        aux = ideal_endpoints(data)
    elif cls == "Geodesic":
        obj = H.Geodesic(H.IdealPoint(data[..., 0, :].copy()), H.IdealPoint(data[..., 1, :].copy()))
    elif cls == "Polygon":
        obj = H.Polygon(data.copy())
        aux = edges_of(data)
    elif cls == "TangentVector":
        obj = H.TangentVector(H.Point(data[..., 0, :].copy()), data[..., 1, :].copy())
        aux = tangent_aux(data)
    elif cls == "Horosphere":
        obj = H.Horosphere(H.IdealPoint(data[..., 0, :].copy()), H.Point(data[..., 1, :].copy()))
    elif cls == "HorosphereArc":
        obj = H.HorosphereArc(data[..., 0, :].copy(), data[..., 1, :].copy(), data[..., 2, :].copy())
    else:
        raise ValueError(cls)
    return obj, data, aux


def cmp_rows(v, tag, cls, got, exp_data, exp_aux, tol=TOL_SIN):
    gd = got.proj_data
    e = rows_err(gd, exp_data)
    if e > tol:
        v.append(V("%s/primary/%s" % (tag, cls), "rows of primary data differ projectively: sin err %.3g\n%r\nexpected\n%r" % (e, gd, exp_data)))
    if exp_aux is not None:
        ga = got.aux_data
        e = rows_err(ga, exp_aux) if ga is not None else float("inf")
        if e > tol:
            v.append(V("%s/aux/%s" % (tag, cls), "rows of derived data differ projectively: sin err %.3g\n%r\nexpected\n%r" % (e, ga, exp_aux)))


def derived_checks(v, cls, obj, n):
    """Derived data of a (transformed) object recomputed by the oracle from its primary data."""
    d = obj.proj_data
    if cls == "Segment":
        e = pair_err_unordered(obj.aux_data, ideal_endpoints(d))
        # endpoints moved far from the origin are nearly parallel as vectors of R^(n,1): the null points of
        # their span are then only determined to eps * cosh^2(distance from the origin)
        dd = np.asarray(d, dtype=float)
        q = np.abs(hyp.mink(dd, dd))
        c = float(np.max(np.sqrt(np.sum(dd * dd, axis=-1) / np.where(q > 0, q, 1.0)))) if np.all(q > 1e-12) else 1.0
        if e > TOL_SIN * max(1.0, c * c / 50.0):
            v.append(V("hyp/derived/Segment/ideal-endpoints", "stored ideal endpoints are not the null points of the line through the endpoints (sin err %.3g)" % e))
        got = obj.ideal_endpoint_coords("klein")
        exp = hyp.to_klein("projective", ideal_endpoints(d))
        if np.shape(got) != np.shape(exp) or pair_err_unordered(np.concatenate([np.ones(got.shape[:-1] + (1,)), got], -1),
                                                                 np.concatenate([np.ones(exp.shape[:-1] + (1,)), exp], -1)) > TOL_IDEAL:
            v.append(V("hyp/derived/Segment/ideal_endpoint_coords", "ideal_endpoint_coords() %r, oracle %r" % (got, exp)))
        nrm = hyp.mink(obj.aux_data, obj.aux_data) / np.sum(np.asarray(obj.aux_data) ** 2, axis=-1)
        if np.max(np.abs(nrm)) > TOL_IDEAL:
            v.append(V("hyp/derived/Segment/not-null", "ideal endpoints are not lightlike: %r" % (nrm,)))
    elif cls == "TangentVector":
        e = rows_err(obj.aux_data, tangent_aux(d))
        if e > TOL_SIN:
            v.append(V("hyp/derived/TangentVector/vector", "stored (point, vector) is not the Minkowski projection of the primary data (sin err %.3g)" % e))
        e = rows_err(obj.vector, tangent_aux(d)[..., 1, :])
        if e > TOL_SIN:
            v.append(V("hyp/derived/TangentVector/vector-accessor", ".vector differs from the oracle projection (sin err %.3g)" % e))
    elif cls == "Polygon":
        e = rows_err(obj.aux_data, edges_of(d))
        if e > TOL_SIN:
            v.append(V("hyp/derived/Polygon/edges", "stored edges are not (v_i, v_i+1) of the vertices (sin err %.3g)" % e))
        ed = obj.get_edges()
        e = rows_err(ed.proj_data, edges_of(d))
        e2 = pair_err_unordered(ed.aux_data, ideal_endpoints(edges_of(d)))
        # same conditioning as for Segment above: vertices far from the origin determine the ideal endpoints of
        # an edge only to eps * cosh^2(distance from the origin)
        dd = np.asarray(d, dtype=float)
        q = np.abs(hyp.mink(dd, dd))
        c = float(np.max(np.sqrt(np.sum(dd * dd, axis=-1) / np.where(q > 0, q, 1.0)))) if np.all(q > 1e-12) else 1.0
        if e > TOL_SIN or e2 > TOL_SIN * max(1.0, c * c / 50.0):
            v.append(V("hyp/derived/Polygon/get_edges", "get_edges(): endpoints err %.3g, ideal endpoints err %.3g" % (e, e2)))


def case_hyp(hist):
    from geometry_tools import hyperbolic as H
    root, ops = hist[0], hist[1:]
    cls, n, shape, seed = root["cls"], root["n"], tuple(root["shape"]), root["seed"]
    X, X0, A0 = build_hyp(root)
    if X is None:
        return {"v": [], "t": 1, "o": "skip:hyperplane-constructor", "nt": False, "key": None, "ops": []}
    Ts = [make_iso(name, n, seed) for name in ops]
    J = hyp.J(n)
    for T in Ts:
        R = T.proj_data
        if np.max(np.abs(R @ J @ R.T - J)) > 1e-9 * (1 + np.max(np.abs(R)) ** 2):
            # precondition of this family (C02 decides it): the alphabet consists of isometries
            return {"v": [], "t": 1, "o": "skip:not-an-isometry", "nt": False, "key": None, "ops": []}
    v = []
    t = 0
    Y = [X]
    Rw = [np.eye(n + 1)]                 # row matrix of the word so far:  rows -> rows @ Rw
    Pk = [H.identity(n)]
    for T in Ts:
        Y.append(T @ Y[-1])
        Rw.append(Rw[-1] @ T.proj_data)
        Pk.append(T @ Pk[-1])
        t += 2
    k = len(ops)
    for i in range(k + 1):
        if type(Y[i]) is not type(X):
            v.append(V("hyp/type/%s" % cls, "after %d applications the object is a %s" % (i, type(Y[i]).__name__)))
        elif tuple(Y[i].shape) != shape or (Y[i].unit_ndims, Y[i].aux_ndims) != (X.unit_ndims, X.aux_ndims):
            v.append(V("hyp/composite-shape/%s" % cls, "composite shape %r (unit %d, aux %d), expected %r" % (
                Y[i].shape, Y[i].unit_ndims, Y[i].aux_ndims, shape)))
    if type(Pk[k]) is not H.Isometry:
        v.append(V("hyp/type/Isometry-product", "isometry @ isometry is a %s" % type(Pk[k]).__name__))
    if v:
        return {"v": v, "t": t, "o": "type", "nt": True, "key": None, "ops": []}
    expY = X0 @ Rw[k]
    expA = None if A0 is None else A0 @ Rw[k]
    if cls == "Segment":
        # the stored order of the two ideal endpoints is the library's: compare order-free with the oracle,
        # and ordered between the library's own two sides below
        if pair_err_unordered(Y[k].aux_data, expA) > TOL_SIN:
            v.append(V("hyp/seq-vs-oracle/aux/Segment", "ideal endpoints of the image are not the images of the ideal endpoints"))
        cmp_rows(v, "hyp/seq-vs-oracle", cls, Y[k], expY, None)
    else:
        cmp_rows(v, "hyp/seq-vs-oracle", cls, Y[k], expY, expA)
    derived_checks(v, cls, Y[k], n)
    cmp_rows(v, "hyp/word-product", cls, Pk[k] @ X, Y[k].proj_data, Y[k].aux_data)
    t += 1
    if k >= 2:
        AB = Ts[k - 1] @ Ts[k - 2]
        cmp_rows(v, "hyp/assoc", cls, AB @ Y[k - 2], Y[k].proj_data, Y[k].aux_data)
        t += 2
    if k >= 3:
        left = (Ts[k - 1] @ Ts[k - 2]) @ Ts[k - 3]
        cmp_rows(v, "hyp/assoc3", cls, left @ Y[k - 3], Y[k].proj_data, Y[k].aux_data)
        t += 3
    cmp_rows(v, "hyp/identity", cls, H.identity(n) @ Y[k], Y[k].proj_data, Y[k].aux_data)
    t += 1
    if k >= 1:
        inv = Ts[k - 1].inv()
        if type(inv) is not H.Isometry:
            v.append(V("hyp/type/inverse", "inv() returned a %s" % type(inv).__name__))
        cmp_rows(v, "hyp/inverse", cls, inv @ Y[k], Y[k - 1].proj_data, Y[k - 1].aux_data)
        cmp_rows(v, "hyp/inverse-product", cls, (inv @ Ts[k - 1]) @ Y[k - 1], Y[k - 1].proj_data, Y[k - 1].aux_data)
        t += 4
    key = repr((n, cls, shape, tuple((np.round(Rw[k].flatten(), 5) + 0.0).tolist())))
    return {"v": v, "t": t, "o": repr(tuple(np.round(np.asarray(expY).flatten()[:3], 5).tolist())),
            "nt": k >= 1 and not np.allclose(Rw[k], np.eye(n + 1)), "key": key,
            "ops": [] if v else hyp_gens(n)}


# ------------------------------------------------------------------------------------------------
# family (iii): representations, the row / column convention
# ------------------------------------------------------------------------------------------------
def rep_generators(kind, m, cx):
    """Generator matrices acting on COLUMN vectors; non-symmetric, non-commuting, b != a^T."""
    if kind == "proj":
        a = np.eye(m, dtype=complex if cx else float)
        b = np.eye(m, dtype=complex if cx else float)
        for i in range(m - 1):
            a[i, i + 1] = 1
        b[1, 0] = 1
        b[m - 1, 0] = 2
        if cx:
            a[0, 1] = 1j
            b[m - 1, 0] = 2 + 1j
        return a, b
    n = m - 1

    def rot(i, j, th):
        r = np.eye(m)
        r[i, i] = r[j, j] = math.cos(th)
        r[i, j] = -math.sin(th)
        r[j, i] = math.sin(th)
        return r

    def boost(i, s):
        r = np.eye(m)
        r[0, 0] = r[i, i] = math.cosh(s)
        r[0, i] = r[i, 0] = math.sinh(s)
        return r
    a = rot(1, 2, 0.7) @ boost(1, 0.8)
    b = boost(2, 0.5) @ rot(1, 2, -1.1)
    if n >= 3:
        b = b @ rot(2, 3, 0.4)
        a = rot(1, 3, -0.3) @ a
    return a, b


def word_matrix(word, a, b):
    """Oracle: value of the word = product of the generator matrices in reading order."""
    g = {"a": a, "b": b, "A": np.linalg.inv(a), "B": np.linalg.inv(b)}
    M = np.eye(a.shape[0], dtype=a.dtype)
    for ch in word:
        M = M @ g[ch]
    return M


def case_rep(case):
    from geometry_tools import projective as P, hyperbolic as H
    kind, m, cx, supply, word = case["kind"], case["m"], case["cx"], case["supply"], case["word"]
    a, b = rep_generators(kind, m, cx)
    assert not np.allclose(a @ b, b @ a) and not np.allclose(a, a.T) and not np.allclose(b, b.T) and not np.allclose(b, a.T)
    Cls, Rep, Pt = (P.Transformation, P.ProjectiveRepresentation, P.Point) if kind == "proj" else \
                   (H.Isometry, H.HyperbolicRepresentation, H.Point)
    rep = Rep()
    for name, g in (("a", a), ("b", b)):
        if supply == "col":
            rep[name] = Cls(g.copy(), column_vectors=True)
        else:
            rep[name] = Cls(g.T.copy())
    if kind == "proj":
        pts = rows(3, 3, m, cx)
    else:
        K = lattice.klein_points(m - 1, m_generic=4, seed=case.get("seed", 0))
        pts = np.array([hyp.klein_to_projective(K[-1]), hyp.klein_to_projective(K[-2], 2.5), hyp.klein_to_projective(K[1])])
    Mw = word_matrix(word, a, b)
    T = rep[word]
    v = []
    if type(T) is not Cls:
        v.append(V("rep/type/%s" % kind, "rep[word] is a %s" % type(T).__name__))
        return {"v": v, "t": 1, "o": "type", "nt": True}
    exp = np.einsum("ij,...j->...i", Mw, pts)
    worst = 0.0
    for X, E in [(Pt(pts[0].copy()), exp[0]), (Pt(pts.copy()), exp), (Pt([Pt(pts[1].copy()), Pt(pts[2].copy())]), exp[1:])]:
        Yp = T @ X
        if type(Yp) is not type(X) or tuple(Yp.shape) != tuple(X.shape):
            v.append(V("rep/type/%s-point" % kind, "image is a %s of shape %r" % (type(Yp).__name__, Yp.shape)))
            continue
        e = rows_err(Yp.proj_data, E)
        worst = max(worst, e)
        if e > 1e-9:
            v.append(V("rep/convention/%s/%s" % (kind, "len1" if len(word) == 1 else "len>=2"),
                       "rep[%r] @ p = %r but M_w p^T = %r (sin err %.3g)" % (word, Yp.proj_data, E, e)))
            break
    # the matrix of the image read back in the user's convention
    back = T.proj_data.T
    e = float(np.max(hyp.proj_sin_err(back.reshape(-1), Mw.reshape(-1))))
    if e > 1e-9:
        v.append(V("rep/matrix/%s" % kind, "rep[%r] as a column matrix is not proportional to M_w (sin err %.3g)" % (word, e)))
    return {"v": v, "t": 4, "o": repr(tuple(np.round(np.asarray(exp[0]) / np.max(np.abs(exp[0])), 4).tolist())),
            "nt": len(word) >= 2}


def case_rep_bulk(case):
    """Bulk accessors (elements / transformations / isometries) of a representation whose generators
    were assigned in a given order and with given dtypes agree, word by word, with rep[w] and with the
    oracle product, including their action on a point."""
    from geometry_tools import projective as P, hyperbolic as H
    kind, m, order, dt, L = case["kind"], case["m"], case["order"], case["dtypes"], case["L"]
    if kind == "proj":
        a, b = rep_generators("proj", m, True)
        a = a.astype(complex)
        b = np.real(b)                      # a genuinely complex, b real
        if dt == "int":
            a = np.round(np.real(a)).astype(np.int64)
            b = np.round(b).astype(np.int64)
        elif dt == "complex-then-real":
            b = b.astype(float)
        elif dt == "float":
            a, b = np.real(a).astype(float), b.astype(float)
        Cls, Rep, Pt = P.Transformation, P.ProjectiveRepresentation, P.Point
    else:
        a, b = rep_generators("hyp", m, False)
        Cls, Rep, Pt = H.Isometry, H.HyperbolicRepresentation, H.Point
    gens = {"a": a, "b": b}
    rep = Rep()
    for name in order:
        g = gens[name.lower()]
        g = g if name.islower() else np.linalg.inv(g)
        rep[name] = Cls(g.copy(), column_vectors=True)
    cont = case.get("container", "list")
    words = list(word_container(cont, L, rep))          # the reference list; every accessor gets a FRESH container
    v, t = [], 0
    A, B = a.astype(complex), b.astype(complex)
    exp = np.array([word_matrix(w, A, B) for w in words])
    singles = np.array([rep[w].proj_data.T.astype(complex) for w in words])
    t += len(words)
    if not np.max(np.abs(singles - exp)) <= 1e-9 * (1 + np.max(np.abs(exp))):
        v.append(V("rep/bulk/single-word/%s/%s" % (kind, dt), "rep[w] differs from the oracle product for some word"))
        return {"v": v, "t": t, "o": "single", "nt": True}
    accessors = [("elements", lambda: rep.elements(word_container(cont, L, rep)))]
    if hasattr(rep, "transformations"):
        accessors.append(("transformations", lambda: rep.transformations(word_container(cont, L, rep))))
    if kind == "hyp":
        accessors.append(("isometries", lambda: rep.isometries(word_container(cont, L, rep))))
    if kind == "proj":
        pt = rows(3, 1, m, True)[0]
    else:
        K = lattice.klein_points(m - 1, m_generic=2, seed=0)
        pt = hyp.klein_to_projective(K[-1])
    expimg = np.einsum("wij,j->wi", exp, pt.astype(complex))
    for name, f in accessors:
        T = f()
        t += 1
        got = np.swapaxes(np.asarray(T.proj_data), -1, -2).astype(complex)
        if got.shape != exp.shape:
            v.append(V("rep/bulk/%s/shape" % name, "words given as %s (%d words): shape %r, expected %r" % (cont, len(words), got.shape, exp.shape)))
            continue
        bad = [w for w, g, e in zip(words, got, exp) if not np.max(np.abs(g - e)) <= 1e-9 * (1 + np.max(np.abs(e)))]
        if bad:
            v.append(V("rep/bulk/%s/value/%s/%s" % (name, kind, dt), "%s(words given as %s) differs from rep[w] for %d words, e.g. %r: got\n%r\nexpected\n%r (generators assigned in order %r)"
                       % (name, cont, len(bad), bad[0], got[words.index(bad[0])], exp[words.index(bad[0])], order)))
            continue
        img = T @ Pt(pt.copy())
        t += 1
        e = float(np.max(hyp.proj_sin_err(np.asarray(img.proj_data).astype(complex), expimg)))
        if not e <= 1e-9:
            v.append(V("rep/bulk/%s/action/%s/%s" % (name, kind, dt), "%s(words) @ p differs from M_w p^T (sin err %.3g)" % (name, e)))
    return {"v": v, "t": t, "o": repr((kind, m, tuple(order), dt, cont)), "nt": True}


# every legal way of handing "an iterable of words" to a bulk accessor; the one-shot kinds can be walked only once
WORD_CONTAINERS = ["list", "tuple", "dict-keys", "dict", "ndarray", "generator", "list-iterator", "map", "chain",
                   "free_words_less_than", "fsa.enumerate_words"]


def word_container(kind, L, rep):
    """A fresh iterable of words of the given kind (all words over {a,b,A,B} of length <= L in a fixed order; for
    the last two kinds the freely reduced ones, produced by the library's own word generators)."""
    words = list(all_words(L))
    if kind == "list":
        return words
    if kind == "tuple":
        return tuple(words)
    if kind == "dict-keys":
        return dict.fromkeys(words).keys()
    if kind == "dict":
        return dict.fromkeys(words)
    if kind == "ndarray":
        return np.array(words)
    if kind == "generator":
        return (w for w in words)
    if kind == "list-iterator":
        return iter(words)
    if kind == "map":
        return map(str.swapcase, [w.swapcase() for w in words])
    if kind == "chain":
        return itertools.chain(words[:3], words[3:])
    if kind == "free_words_less_than":
        return rep.free_words_less_than(L + 1)
    if kind == "fsa.enumerate_words":
        from geometry_tools.automata import fsa
        return fsa.free_automaton(["a", "b"]).enumerate_words(L)
    raise ValueError(kind)


# histories of ONE representation object: the word images always belong to the CURRENT generators
REP_ACTS = ["act", "act-inverse-letters", "bulk"]
REP_SETS = ["a=2", "a=3", "b=2", "A=2", "B=3"]
REP_HIST_OPS = REP_ACTS + REP_SETS


def rep_alt_generator(kind, m, cx, idx):
    """Replacement generators (COLUMN matrices), different from rep_generators and from each other."""
    if kind == "proj":
        g = mix_uni(idx, m).T
        if cx and idx == 2:
            return g @ tmat("Gm", m)        # Gaussian-integer, unimodular; generator 3 stays real on purpose
        return g.astype(complex) if cx and idx == 2 else g
    return mix_iso(idx, m - 1).T


def rep_hist_sequences(L):
    """All op sequences of length <= L in which some assignment comes after some evaluation."""
    out = []
    for l in range(2, L + 1):
        for seq in itertools.product(REP_HIST_OPS, repeat=l):
            first_act = min([i for i, o in enumerate(seq) if o in REP_ACTS] + [l])
            if any(o in REP_SETS for o in seq[first_act + 1:]):
                out.append(list(seq))
    return out


def case_rep_hist(case):
    """One representation object through a sequence of evaluations (rep[w] @ points for every word of length <= 2,
    or only the words in inverse letters, or the bulk accessors) and generator assignments (re-assigning a or b,
    assigning through the inverse letter A or B); after every step of the sequence that evaluates, and for all
    words of length <= 3 at the end, rep[w] @ p is M_w p^T with M_w the oracle product of the CURRENT generators.
    With case["hostile"] the caller recycles every Transformation / Isometry object it has assigned, directly after the
    assignment, for another transformation (item assignment T[...] = other on ITS OWN object): the generators are the
    transformations that were assigned."""
    from geometry_tools import projective as P, hyperbolic as H
    kind, m, cx, seq = case["kind"], case["m"], case["cx"], case["seq"]
    a, b = rep_generators(kind, m, cx)
    Cls, Rep, Pt = (P.Transformation, P.ProjectiveRepresentation, P.Point) if kind == "proj" else \
                   (H.Isometry, H.HyperbolicRepresentation, H.Point)
    if kind == "proj":
        pts = rows(3, 3, m, cx)
    else:
        K = lattice.klein_points(m - 1, m_generic=4, seed=case.get("seed", 0))
        pts = np.array([hyp.klein_to_projective(K[-1]), hyp.klein_to_projective(K[-2], 2.5), hyp.klein_to_projective(K[1])])
    nsup = [0]
    hostile = case.get("hostile")

    def HK(rest):
        # one finding class for the hostile caller (per kind of representation)
        return "rep/history/caller-recycles-assigned-object/%s" % kind if hostile else "rep/history/" + rest

    def wrap(g):
        nsup[0] += 1
        if nsup[0] % 2:
            return Cls(np.array(g).copy(), column_vectors=True)
        return Cls(np.array(g).T.copy())

    def assign(letter, g):
        """rep[letter] = T; a hostile caller then recycles ITS OWN object T in place for another transformation
        (T[...] = other): the generator is the transformation that was assigned"""
        T = wrap(g)
        rep_[letter] = T
        if hostile:
            T[...] = Cls(rep_alt_generator(kind, m, cx, 4 + nsup[0] % 2).copy(), column_vectors=True)
    rep_ = Rep()
    assign("a", a)
    assign("b", b)
    model = {"a": a, "b": b}
    v, t = [], 2
    stage = ["fresh"]

    def oracle_words(L):
        g = {"a": model["a"], "b": model["b"], "A": np.linalg.inv(model["a"]), "B": np.linalg.inv(model["b"])}
        W = {"": np.eye(m, dtype=complex if cx else float)}
        for w in all_words(L):
            if w:
                W[w] = W[w[:-1]] @ g[w[-1]]
        return W

    def check_words(words, W, when):
        nonlocal t
        for w in words:
            T = rep_[w]
            t += 2
            if type(T) is not Cls:
                v.append(V(HK("type/%s" % kind), "rep[%r] is a %s" % (w, type(T).__name__)))
                return False
            Y = T @ Pt(pts.copy())
            exp = np.einsum("ij,...j->...i", W[w], pts)
            if type(Y) is not Pt or tuple(Y.shape) != (3,):
                v.append(V(HK("type/%s-point" % kind), "rep[%r] @ points is a %s of shape %r" % (w, type(Y).__name__, Y.shape)))
                return False
            e = rows_err(Y.proj_data, exp)
            if not e <= 1e-9:
                v.append(V(HK("action/%s/%s" % (kind, stage[0])),
                           "after %r (%s): rep[%r] @ p = %r but M_w p^T = %r for the current generators (sin err %.3g)" % (
                               seq, when, w, Y.proj_data, exp, e)))
                return False
            e = float(np.max(hyp.proj_sin_err(np.asarray(T.proj_data).T.reshape(-1), W[w].reshape(-1))))
            if not e <= 1e-9:
                v.append(V(HK("matrix/%s/%s" % (kind, stage[0])), "after %r (%s): rep[%r] as a column matrix is not proportional to M_w (sin err %.3g)" % (seq, when, w, e)))
                return False
        return True

    short = list(all_words(2))
    for i, op in enumerate(seq):
        when = "step %d" % i
        if op == "act":
            if not check_words(short, oracle_words(2), when):
                break
        elif op == "act-inverse-letters":
            if not check_words([w for w in short if w and w.isupper()], oracle_words(2), when):
                break
        elif op == "bulk":
            W = oracle_words(2)
            exp = np.array([W[w] for w in short]).astype(complex)
            expimg = np.einsum("wij,j->wi", exp, pts[0].astype(complex))
            accessors = ["elements", "transformations"] + (["isometries"] if kind == "hyp" else [])
            for name in accessors:
                T = getattr(rep_, name)(short)
                t += 2
                got = np.swapaxes(np.asarray(T.proj_data), -1, -2).astype(complex)
                if type(T) is not Cls or got.shape != exp.shape:
                    v.append(V(HK("bulk/%s/type" % name), "%s(words) is a %s with data of shape %r" % (name, type(T).__name__, got.shape)))
                    break
                e = max(float(np.max(hyp.proj_sin_err(g_.reshape(-1), e_.reshape(-1)))) for g_, e_ in zip(got, exp))
                img = T @ Pt(pts[0].copy())
                e2 = float(np.max(hyp.proj_sin_err(np.asarray(img.proj_data).astype(complex), expimg)))
                if not (e <= 1e-9 and e2 <= 1e-9):
                    v.append(V(HK("bulk/%s/%s/%s" % (name, kind, stage[0])), "after %r (%s): %s(words) is not the oracle image of the current generators (matrix sin err %.3g, action sin err %.3g)" % (
                        seq, when, name, e, e2)))
                    break
            if v:
                break
        else:
            letter, idx = op.split("=")
            g = rep_alt_generator(kind, m, cx, int(idx))
            assign(letter, g)
            t += 1
            model[letter.lower()] = g if letter.islower() else np.linalg.inv(g)
            stage[0] = "after-reassignment" if letter.islower() else "after-inverse-letter-assignment"
    if not v:
        check_words(list(all_words(3)), oracle_words(3), "end")
    return {"v": v, "t": t, "o": repr((kind, m, cx, tuple(seq[-2:]), stage[0])), "nt": True}


def all_words(L):
    for l in range(L + 1):
        for w in itertools.product("abAB", repeat=l):
            yield "".join(w)


# ------------------------------------------------------------------------------------------------
# family (iv): compositions across the two transformation classes, Isometry-typed non-isometries
# ------------------------------------------------------------------------------------------------
MIX_ROUTES = ["P:uni", "P:iso", "H:iso", "H:uni", "H:scaled-iso", "H:P@H", "P:H@P"]
MIX_ISOMETRIC = ("P:iso", "H:iso", "H:scaled-iso", "H:ill-lox")
# ill-conditioned routes (condition 2^30 .. 2^60, all exactly invertible matrices): a smaller shape set, and
#   P:ill-exact  I + t E_ij (t ~ 2^30, 2^29) and power-of-two diagonal maps, on the integer-valued projective classes
#                (every operation exact in float64: the usual tolerance);
#   P:ill-mod    rotation conjugates of the boost with eigenvalues ~2^15, 2^-15 and I + (2^15+1+j) E_10;
#   H:ill-lox    loxodromic isometries with parameter ~2^15 (the first unit: the exact standard boost), on every
#                hyperbolic class;  the last two with tolerance 64*eps*cond
MIX_ILL_ROUTES = ["P:ill-exact", "P:ill-mod", "H:ill-lox"]
MIX_ILL_SHAPES = [[], [3], [2, 3]]
MIX_X_TRANSFORMS = ["P.Transformation", "H.Isometry"]
MIX_X_PROJ = ["P.Point", "P.PointPair", "P.Polygon", "P.Simplex", "P.Subspace"]
MIX_X_HYP_ANY = ["H.Point", "H.IdealPoint", "H.PointPair", "H.Segment", "H.Geodesic", "H.Polygon"]
MIX_X_HYP_ISO = ["H.DualPoint", "H.TangentVector", "H.Horosphere", "H.HorosphereArc", "H.Hyperplane", "H.Subspace"]
MIX_MODES = ["elementwise", "pairwise", "pairwise_reversed"]


def mix_classes(route):
    if route == "P:ill-exact":
        return ["P.Transformation"] + MIX_X_PROJ
    return MIX_X_TRANSFORMS + MIX_X_PROJ + MIX_X_HYP_ANY + (MIX_X_HYP_ISO if route in MIX_ISOMETRIC else [])


def mix_uni(j, m):
    """Pairwise distinct, non-symmetric integer ROW matrices of determinant 1 (unit lower @ unit upper)."""
    lo, up = np.eye(m), np.eye(m)
    r1, r2 = int_row(j, m), int_row(3 * j + 1, m)
    for a in range(m):
        for b in range(a + 1, m):
            up[a, b] = r1[(a + b) % m] + (j % 3)
            lo[b, a] = r2[(a * b + 1) % m] - (j % 2)
    up[0, m - 1] = j + 1
    return lo @ up


def mix_iso(j, n):
    """Pairwise distinct elements of SO(n,1) as ROW matrices, products of rotations and boosts."""
    m = n + 1

    def rot(a, b, th):
        r = np.eye(m)
        r[a, a] = r[b, b] = math.cos(th)
        r[a, b] = -math.sin(th)
        r[b, a] = math.sin(th)
        return r

    def boost(a, s):
        r = np.eye(m)
        r[0, 0] = r[a, a] = math.cosh(s)
        r[0, a] = r[a, 0] = math.sinh(s)
        return r
    R = rot(1, 2, 0.3 + 0.37 * j) @ boost(1, 0.25 + 0.07 * j) @ rot(1, 2, -0.2 * j - 0.1)
    if n >= 3:
        R = R @ rot(2, 3, 0.5 + 0.11 * j) @ boost(3, 0.1 * (j % 4))
    return R


def mix_ill_exact(j, m):
    """ROW matrices with an exact float64 inverse and condition 2^58 .. 2^60, pairwise distinct."""
    r = np.eye(m)
    if j % 3 == 0:
        r[0, m - 1] = BIG + 2.0 ** (j // 3)
    elif j % 3 == 1:
        r[m - 1, 0] = BIG / 2 + 2.0 ** (j // 3)
    else:
        r = np.diag([1.0, BIG, 1.0 / BIG, MID][:m]) * 2.0 ** (j // 3)
    return r


def mix_ill_mod(j, m):
    """ROW matrices of determinant 1 and condition ~2^30: orthogonal conjugates of boosts, a non-power-of-two shear."""
    if j % 3 == 2:
        r = np.eye(m)
        r[1, 0] = MID + 1.0 + j
        return r
    p = MID * (1.0 + j / 16.0)
    r = np.eye(m)
    r[0, 0] = r[1, 1] = (p + 1.0 / p) / 2.0
    r[0, 1] = r[1, 0] = (p - 1.0 / p) / 2.0
    if j == 0:
        return r
    th = 0.3 + 0.37 * j
    q = np.eye(m)
    q[0, 0] = q[m - 1, m - 1] = math.cos(th)
    q[0, m - 1], q[m - 1, 0] = -math.sin(th), math.sin(th)
    return q @ r @ q.T


def mix_ill_lox(j, n):
    """ROW matrices of SO(n,1) with condition ~2^30: the standard boost with parameter p ~ 2^15 (j = 0: exact
    entries), conjugated by rotations about the origin for j > 0."""
    m = n + 1
    p = MID * (1.0 + j / 16.0)
    r = np.eye(m)
    r[0, 0] = r[1, 1] = (p + 1.0 / p) / 2.0
    r[0, 1] = r[1, 0] = (p - 1.0 / p) / 2.0
    if j == 0:
        return r
    th = 0.3 + 0.37 * j
    q = np.eye(m)
    q[1, 1] = q[2, 2] = math.cos(th)
    q[1, 2], q[2, 1] = -math.sin(th), math.sin(th)
    if n >= 3:
        q2 = np.eye(m)
        q2[2, 2] = q2[3, 3] = math.cos(0.5 + 0.11 * j)
        q2[2, 3], q2[3, 2] = -math.sin(0.5 + 0.11 * j), math.sin(0.5 + 0.11 * j)
        q = q @ q2
    return q @ r @ q.T


def stack_units(units, shape):
    shape = tuple(shape)
    u = np.array(units[:size(shape)])
    return u.reshape(shape + u.shape[1:])


def build_mix_A(route, n, shape, off=0):
    """A (possibly composite) transformation of one of the two classes; returns (object, expected class,
    oracle row matrices)."""
    from geometry_tools import projective as P, hyperbolic as H
    N = size(shape)
    U = stack_units([mix_uni(off + j, n + 1) for j in range(N)], shape)
    I = stack_units([mix_iso(off + j + 3, n) for j in range(N)], shape)
    if route == "P:uni":
        return P.Transformation(U.copy()), P.Transformation, U
    if route == "P:iso":
        return P.Transformation(I.copy()), P.Transformation, I
    if route == "H:iso":
        return H.Isometry(np.swapaxes(I, -1, -2).copy(), column_vectors=True), H.Isometry, I
    if route == "H:uni":
        return H.Isometry(U.copy()), H.Isometry, U
    if route == "H:scaled-iso":
        return H.Isometry(2.5 * I), H.Isometry, 2.5 * I
    if route == "H:P@H":          # a projective transformation acting on isometries: the type of X
        return P.Transformation(U.copy()) @ H.Isometry(I.copy()), H.Isometry, I @ U
    if route == "P:H@P":
        return H.Isometry(I.copy()) @ P.Transformation(U.copy()), P.Transformation, U @ I
    if route == "P:ill-exact":
        E = stack_units([mix_ill_exact(off + j, n + 1) for j in range(N)], shape)
        return P.Transformation(E.copy()), P.Transformation, E
    if route == "P:ill-mod":
        E = stack_units([mix_ill_mod(off + j, n + 1) for j in range(N)], shape)
        return P.Transformation(E.copy()), P.Transformation, E
    if route == "H:ill-lox":
        E = stack_units([mix_ill_lox(off + j, n) for j in range(N)], shape)
        return H.Isometry(np.swapaxes(E, -1, -2).copy(), column_vectors=True), H.Isometry, E
    raise ValueError(route)


def build_mix_X(xcls, n, shape, seed):
    """Object X of a class of either module; returns (object, is-a-transformation)."""
    from geometry_tools import projective as P, hyperbolic as H
    mod, name = xcls.split(".")
    if xcls == "H.Isometry":
        I = stack_units([mix_iso(11 + j, n) for j in range(size(shape))], shape)
        return H.Isometry(I.copy()), True
    if mod == "P":
        X, _, _ = build_proj({"d": n, "cls": name, "shape": list(shape), "cx": False})
        return X, name == "Transformation"
    X, data, _ = build_hyp({"cls": name, "n": n, "shape": list(shape), "seed": seed})
    return X, False


def unit_err(a, b, whole):
    """Projective distance between two arrays of units: rows compared row by row, matrices of
    transformations as one projective vector each."""
    if a is None or b is None:
        return 0.0 if a is None and b is None else float("inf")
    a, b = np.asarray(a), np.asarray(b)
    if a.shape != b.shape:
        return float("inf")
    if whole:
        a, b = a.reshape(a.shape[:-2] + (-1,)), b.reshape(b.shape[:-2] + (-1,))
    return rows_err(a, b)


def case_mixed(case):
    from geometry_tools import projective as P, hyperbolic as H
    from mc.oracle import shapes as S
    n, route, sA, xcls, sX, seed = case["n"], case["route"], tuple(case["sA"]), case["xcls"], tuple(case["sX"]), case["seed"]
    v, t = [], 0
    fam = "%s@%s" % (route.split(":")[0], xcls.split(".")[0])            # which module acts on which
    A, Acls, RA = build_mix_A(route, n, sA)
    t += 1
    if type(A) is not Acls:
        v.append(V("mixed/type/transformation-product/%s" % route, "the %s route gives a %s, expected %s (A @ X has the type of X)" % (
            route, type(A).__name__, Acls.__name__)))
        return {"v": v, "t": t, "o": "type", "nt": True}
    tol = TOL_SIN
    if route in ("P:ill-mod", "H:ill-lox"):
        tol = max(TOL_SIN, 64.0 * EPS * float(np.max(np.linalg.cond(RA))))
    if tuple(A.shape) != sA or unit_err(A.proj_data, RA, True) > TOL_SIN:
        v.append(V("mixed/product-matrix/%s" % route, "route %s shape %r: matrix\n%r\nexpected\n%r" % (route, A.shape, A.proj_data, RA)))
        return {"v": v, "t": t, "o": "matrix", "nt": True}
    X, whole = build_mix_X(xcls, n, sX, seed)
    if X is None:
        return {"v": [], "t": t, "o": "skip:hyperplane-constructor", "nt": False}
    X0 = np.array(X.proj_data)
    A0 = None if X.aux_data is None else np.array(X.aux_data)
    isometric = route in MIX_ISOMETRIC
    ndims = (X.unit_ndims, X.aux_ndims)

    def typed(tag, Y, shape):
        if type(Y) is not type(X):
            v.append(V("mixed/type/%s/%s/%s" % (tag, fam, xcls), "A=%s (%s) X=%s: result is a %s" % (route, type(A).__name__, xcls, type(Y).__name__)))
            return False
        if tuple(Y.shape) != tuple(shape) or (Y.unit_ndims, Y.aux_ndims) != ndims:
            v.append(V("mixed/composite-shape/%s/%s/%s" % (tag, fam, xcls), "A%r X%r: composite shape %r (unit %d, aux %d), expected %r" % (
                sA, sX, Y.shape, Y.unit_ndims, Y.aux_ndims, tuple(shape))))
            return False
        if (Y.aux_data is None) != (A0 is None):
            v.append(V("mixed/aux-presence/%s/%s/%s" % (tag, fam, xcls), "derived data appeared / disappeared"))
            return False
        return True

    def same(tag, Y, Z_data, Z_aux, ordered_aux=True):
        e = unit_err(Y.proj_data, Z_data, whole)
        if not e <= tol:
            v.append(V("mixed/%s/primary/%s/%s" % (tag, fam, xcls), "A=%s%r X=%s%r: primary data differ projectively (sin err %.3g)\n%r\nexpected\n%r" % (
                route, sA, xcls, sX, e, Y.proj_data, Z_data)))
        if Z_aux is not None:
            e = unit_err(Y.aux_data, Z_aux, False) if ordered_aux else pair_err_unordered(Y.aux_data, Z_aux)
            if not e <= tol:
                v.append(V("mixed/%s/aux/%s/%s" % (tag, fam, xcls), "A=%s%r X=%s%r: derived data differ projectively (sin err %.3g)" % (route, sA, xcls, sX, e)))

    # every broadcast mode: type, composite shape, entry [idx] = A[j] applied to X[i]
    el = None
    for mode in MIX_MODES:
        imap = S.index_map(mode, sX, sA)
        if imap is None:
            continue
        rs = S.result_shape(mode, sX, sA)
        Y = A.apply(X, broadcast=mode)
        t += 1
        if not typed("apply-" + mode, Y, rs):
            continue
        exp = np.array([X0[i] @ RA[j] for (_, i, j) in imap]).reshape(tuple(rs) + X0.shape[len(sX):])
        expa = None
        if A0 is not None and isometric:
            expa = np.array([A0[i] @ RA[j] for (_, i, j) in imap]).reshape(tuple(rs) + A0.shape[len(sX):])
        same("apply-vs-oracle/" + mode, Y, exp, expa, ordered_aux=not xcls.endswith("Segment"))
        if mode == "elementwise":
            el = Y
    if el is None or v:
        return {"v": v, "t": t, "o": "apply", "nt": True}
    rs = tuple(el.shape)
    # the operator is the elementwise application
    Y = A @ X
    t += 1
    if typed("matmul", Y, rs):
        same("matmul-vs-apply", Y, el.proj_data, el.aux_data)
    # inverse: of the class of A, undoes A on X (X broadcast to the result shape)
    Ai = A.inv()
    t += 1
    if type(Ai) is not type(A) or tuple(Ai.shape) != sA:
        v.append(V("mixed/type/inverse/%s" % route, "inv() of a %s of shape %r is a %s of shape %r" % (type(A).__name__, sA, type(Ai).__name__, Ai.shape)))
    else:
        bX = np.broadcast_to(X0, rs + X0.shape[len(sX):])
        bA = None if A0 is None else np.broadcast_to(A0, rs + A0.shape[len(sX):])
        back = Ai @ el
        t += 1
        if typed("inverse", back, rs):
            same("inverse", back, bX, bA)
        AiA = Ai @ A
        AAi = A @ Ai
        t += 2
        for nm, Q in (("inv@A", AiA), ("A@inv", AAi)):
            if type(Q) is not type(A):
                v.append(V("mixed/type/inverse-product/%s" % route, "%s is a %s" % (nm, type(Q).__name__)))
            elif not unit_err(Q.proj_data, np.broadcast_to(np.eye(n + 1), sA + (n + 1, n + 1)), True) <= tol:
                v.append(V("mixed/inverse-product/%s" % route, "%s is not the identity projectively:\n%r" % (nm, Q.proj_data)))
            else:
                Z = Q @ X
                t += 1
                if typed("inverse-product", Z, rs):
                    same("inverse-product", Z, bX, bA)
    # associativity with a single transformation B of each class (so both mixed orders occur)
    for broute in ("P:uni", "H:iso", "H:uni"):
        if xcls in MIX_X_HYP_ISO and broute != "H:iso":
            continue            # classes whose derived / dual data only make sense under isometries
        B, Bcls, RB = build_mix_A(broute, n, (), off=20)
        AB, BA = A @ B, B @ A
        t += 2
        if type(AB) is not Bcls or type(BA) is not Acls:
            v.append(V("mixed/type/transformation-product/%s@%s" % (route.split(":")[0], broute.split(":")[0]),
                       "A=%s B=%s: A @ B is a %s, B @ A is a %s" % (route, broute, type(AB).__name__, type(BA).__name__)))
            continue
        if tuple(AB.shape) != sA or tuple(BA.shape) != sA:
            v.append(V("mixed/composite-shape/transformation-product", "A%r @ B(): shapes %r, %r" % (sA, AB.shape, BA.shape)))
            continue
        L1, R1 = AB @ X, A @ (B @ X)
        L2, R2 = BA @ X, B @ (A @ X)
        t += 6
        for tag, L_, R_ in (("assoc/(A@B)@X", L1, R1), ("assoc/(B@A)@X", L2, R2)):
            if typed(tag, L_, rs) and typed(tag, R_, rs):
                same(tag, L_, R_.proj_data, R_.aux_data)
    # the identity of the OTHER module
    Id = P.identity(n) if xcls.startswith("H.") else H.identity(n)
    Z = Id @ X
    t += 1
    if typed("identity", Z, sX):
        same("identity", Z, X0, A0)
    return {"v": v, "t": t, "o": repr((route, xcls, rs, round(float(np.sum(np.abs(el.proj_data))), 3))),
            "nt": not np.allclose(RA, np.eye(n + 1))}



# ------------------------------------------------------------------------------------------------
# family (v): the image is an object of its own (two-step histories: apply, then edit one side in place)
# ------------------------------------------------------------------------------------------------
IND_ID_ROUTES = ["P.identity()", "H.identity()", "P.T(eye)", "H.I(eye)", "P.T(eye,int)", "P.T(eye,col)", "H.I(eye,col)",
                 "prep['']", "hrep['']", "prep['aA']", "hrep['bB']", "P:inv@A", "H:inv@A", "P.T(eye)^sX", "H.I(eye)^sX"]
IND_GEN_ROUTES = ["P:2.5I", "P:iso", "H:iso", "H:iso^sX", "P:uni"]
IND_ROUTES = IND_ID_ROUTES + IND_GEN_ROUTES
IND_OPS = ["matmul", "apply", "apply-pairwise", "apply-pairwise_reversed"]
IND_TARGETS = ["result", "operand", "transformation"]
# item-assignment keys per composite shape of X: (key as text, composite shape of the selection)
IND_EDITS = {"[]": [["...", []]],
             "[2]": [["0", []], ["-1", []], ["...", [2]], [":1", [1]]],
             "[2, 3]": [["0", [3]], ["1,2", []], ["...", [2, 3]], [":,0", [2]]]}
IND_SHAPES = [[], [2], [2, 3]]


def ind_key(text):
    def one(s_):
        if s_ == "...":
            return Ellipsis
        if ":" in s_:
            a_, b_ = s_.split(":")
            return slice(int(a_) if a_ else None, int(b_) if b_ else None)
        return int(s_)
    parts = [one(s_) for s_ in text.split(",")]
    return parts[0] if len(parts) == 1 else tuple(parts)


def build_ind_A(route, n, sX):
    from geometry_tools import projective as P, hyperbolic as H
    m = n + 1
    eye = np.identity(m)
    if route == "P.identity()":
        return P.identity(n)
    if route == "H.identity()":
        return H.identity(n)
    if route == "P.T(eye)":
        return P.Transformation(eye)
    if route == "H.I(eye)":
        return H.Isometry(eye)
    if route == "P.T(eye,int)":
        return P.Transformation(np.identity(m, dtype=np.int64))
    if route == "P.T(eye,col)":
        return P.Transformation(eye, column_vectors=True)
    if route == "H.I(eye,col)":
        return H.Isometry(eye, column_vectors=True)
    if route in ("prep['']", "prep['aA']", "hrep['']", "hrep['bB']"):
        kind = "proj" if route.startswith("p") else "hyp"
        a, b = rep_generators(kind, m, False)
        Cls, Rep = (P.Transformation, P.ProjectiveRepresentation) if kind == "proj" else (H.Isometry, H.HyperbolicRepresentation)
        rep = Rep()
        rep["a"] = Cls(a.copy(), column_vectors=True)
        rep["b"] = Cls(b.T.copy())
        return rep[route.split("'")[1]]
    if route == "P:inv@A":
        A = P.Transformation(mix_uni(2, m))
        return A.inv() @ A
    if route == "H:inv@A":
        A = H.Isometry(mix_iso(2, n))
        return A.inv() @ A
    if route == "P.T(eye)^sX":
        return P.Transformation(np.broadcast_to(eye, tuple(sX) + (m, m)).copy())
    if route == "H.I(eye)^sX":
        return H.Isometry(np.broadcast_to(eye, tuple(sX) + (m, m)).copy())
    if route == "P:2.5I":
        return P.Transformation(2.5 * eye)
    if route == "P:iso":
        return P.Transformation(mix_iso(5, n))
    if route == "H:iso":
        return H.Isometry(mix_iso(6, n))
    if route == "H:iso^sX":
        return H.Isometry(stack_units([mix_iso(3 + j, n) for j in range(size(sX))], sX).copy())
    if route == "P:uni":
        return P.Transformation(mix_uni(1, m))
    raise ValueError(route)


def ind_classes(route):
    return MIX_X_TRANSFORMS + MIX_X_PROJ + MIX_X_HYP_ANY + ([] if route == "P:uni" else MIX_X_HYP_ISO)


def snap(obj):
    return [None if getattr(obj, f, None) is None else np.array(getattr(obj, f)) for f in ("proj_data", "aux_data", "dual_data")]


def snap_changed(obj, before):
    """Names of the data arrays of obj that are no longer what the snapshot says (exact comparison)."""
    out = []
    for f, b in zip(("proj_data", "aux_data", "dual_data"), before):
        now = getattr(obj, f, None)
        if (now is None) != (b is None) or (b is not None and (np.shape(now) != b.shape or not np.array_equal(now, b))):
            out.append(f)
    return out


def case_independent(case):
    """Y = A @ X (or A.apply(X, mode)); then ONE of the three objects is edited in place through item assignment
    (obj[key] = other object of the same class); the other two still hold exactly the data they held before the
    edit, a second A @ X gives the first image again (when X and A were not the ones edited), and A.inv() @ Y' for a
    fresh image Y' is X as it was."""
    from geometry_tools import projective as P, hyperbolic as H
    n, route, xcls, sX, seed = case["n"], case["route"], case["xcls"], tuple(case["sX"]), case["seed"]
    key_text, sel = case["edit"]
    key = ind_key(key_text)
    rclass = "identity" if route in IND_ID_ROUTES else "generic"
    v, t = [], 0
    outcome = []
    # the replacement value: an object of the class of X and of the composite shape of the selection, moved away
    # from every unit of X by a fixed isometry
    mover = H.Isometry(mix_iso(9, n))
    for op in IND_OPS:
        for target in IND_TARGETS:
            A = build_ind_A(route, n, sX)
            X, whole = build_mix_X(xcls, n, sX, seed)
            R, _ = build_mix_X(xcls, n, tuple(sel), seed)
            if X is None or R is None:
                return {"v": [], "t": t, "o": "skip:hyperplane-constructor", "nt": False}
            R = mover @ R
            if type(R) is not type(X):
                R = type(X)(R)
            t += 2
            Y = (A @ X) if op == "matmul" else A.apply(X, broadcast=op.split("-", 1)[1] if "-" in op else "elementwise")
            if type(Y) is not type(X):
                v.append(V("independent/type/%s" % xcls, "A=%s X=%s %s: result is a %s" % (route, xcls, op, type(Y).__name__)))
                continue
            if target != "transformation" and tuple(Y.shape) != sX:
                continue            # pairwise modes with a composite A: another composite shape, family (iv)'s business
            sx, sy, sa = snap(X), snap(Y), snap(A)
            if target == "result":
                Y[key] = R
                watch = (("X", X, sx), ("A", A, sa))
            elif target == "operand":
                X[key] = R
                watch = (("result", Y, sy), ("A", A, sa))
            else:
                other = type(A)(np.broadcast_to(mix_iso(8, n), np.shape(A.proj_data)).copy())
                A[...] = other
                watch = (("result", Y, sy), ("X", X, sx))
            t += 1
            for name, obj, before in watch:
                ch = snap_changed(obj, before)
                if ch:
                    v.append(V("independent/edit-%s-changes-%s/%s/%s" % (target, name, rclass, xcls.split(".")[0]),
                               "A=%s X=%s%r: after Y = %s and the in-place edit %s[%s] = <other %s>, %s of %s changed" % (
                                   route, xcls, sX, "A @ X" if op == "matmul" else "A.%s" % op,
                                   {"result": "Y", "operand": "X", "transformation": "A"}[target], key_text, xcls, ", ".join(ch), name)))
            if target == "result" and not v:
                # X and A are what they were: a second application gives the first image again, and inv undoes it
                Y2 = A @ X
                back = A.inv() @ Y2
                t += 3
                tol = TOL_SIN
                if unit_err(Y2.proj_data, sy[0], whole) > tol or (sy[1] is not None and Y2.aux_data is None):
                    v.append(V("independent/second-application/%s/%s" % (rclass, xcls.split(".")[0]),
                               "A=%s X=%s%r: A @ X computed again after editing the first image differs from the first image" % (route, xcls, sX)))
                if tuple(back.shape) != sX or unit_err(back.proj_data, sx[0], whole) > tol:
                    v.append(V("independent/inverse-after-edit/%s/%s" % (rclass, xcls.split(".")[0]),
                               "A=%s X=%s%r: A.inv() @ (A @ X) after editing an earlier image is not X" % (route, xcls, sX)))
            outcome.append(len(v))
    return {"v": v, "t": t, "o": repr((route, xcls, sX, key_text, round(float(np.sum(np.abs(sy[0]))), 3))), "nt": True}


# ------------------------------------------------------------------------------------------------
def run(ctx):
    # the former thorough bounds take ~15 s on 16 cores: they are the quick tier now; thorough goes one level deeper
    deep = not ctx.quick
    q = False
    only = getattr(ctx, "only", None)

    def want(name):
        return not only or any(name.startswith(p) for p in only)
    ctx.rule = ("histories X, g1@X, g2@(g1@X), ... explored breadth-first over a finite alphabet of transformations for "
                "every (class, composite shape, dimension, field) root, de-duplicated on (root, matrix of the word); "
                "in every state the sequential image is compared with the oracle image, with (A@B)@Z, with the product "
                "of the whole word, with identity@ and inv()@; representation words enumerated completely up to length "
                "L; non-trivial = the word's matrix is not the identity / word length >= 2")
    ctx.assume("transformations are invertible (alphabet: unimodular integer / Gaussian-integer matrices; isometries)")
    ctx.assume("family (ii): every alphabet element preserves the Minkowski form to 1e-9 (decided by C02); verified "
               "with the oracle in the harness, a failing element makes the case a recorded skip, not a violation")
    ctx.assume("family (ii): Hyperplane units are built by the library constructor from generic spacelike normals and "
               "verified (normal orthogonal to a null ideal basis) before use (constructor defects are C15's)")
    ctx.assume("applying a transformation to a raw ndarray returns a generic ProjectiveObject (documented): class "
               "preservation is demanded for objects only")
    ctx.assume("ConvexPolygon is not in the property's list and is not checked")
    ctx.assume("family (iv): an object of class Isometry is a transformation whatever its matrix (the library itself produces "
               "Isometry-typed non-isometries: Transformation @ Isometry has the type of X); the laws are demanded for it as for "
               "any invertible matrix.  Non-isometric A act on transformations, projective objects and the hyperbolic point / "
               "pair / segment / geodesic / polygon classes (primary rows against the oracle, derived data only between the two "
               "sides of a law); dual points, tangent vectors, horospheres, hyperplanes, subspaces only under isometric A")
    ctx.assume("family (iv): all equalities are projective (rows up to scale, a transformation's matrix up to one scalar)")
    ctx.assume("the order in which a Segment stores its two ideal endpoints is not part of the property: compared "
               "order-free with the oracle, ordered between two library computations of the same object")
    ctx.tolerances["exact"] = "1e-12*(1+max|v|): integer / Gaussian-integer data, every product exact in float64"
    ctx.tolerances["inverse"] = "1e-9*(1+max|v|): np.linalg.inv of a unimodular matrix carries a few ulps"
    ctx.tolerances["inverse, ill-conditioned A"] = (
        "projective-illcond: relative to 1+max|expected|: 1e-9 when A is a power-of-two diagonal map or I + 2^k E_ij acting on "
        "(Gaussian) integer data with sum |terms| < 2^51 (every float64 operation of any rational inversion algorithm and of "
        "both applications is exact); A = I + t E_ij otherwise: 64*eps*max(|A||Y|, |A^-1||AY|) (entrywise accurate inverse); any "
        "other A (boost 2^15, I + (2^15+1)E_10, products): 64*eps*cond_2(A) ~ 1.5e-5 for cond 2^30; laws with 64*eps*cond > 1e-3 "
        "are not decidable in float64 and are not evaluated (forward laws of the same history still are).  mixed routes P:ill-mod, "
        "H:ill-lox: sine between rows <= 64*eps*cond_2(A) ~ 2e-5 (measured worst 5e-7); P:ill-exact: the usual 1e-8 (exact arithmetic). "
        "A rank-deficient or truncated inverse gives errors of order 1")
    ctx.assume("'all invertible matrices' is read in float64: a matrix whose inverse is an exact float64 matrix, or whose condition "
               "number is below 1e-3/(64 eps) ~ 7e10, is invertible; the inverse laws are demanded for it with the tolerances stated "
               "under 'inverse, ill-conditioned A'")
    ctx.assume("independent image: 'the identity leaves X unchanged' and 'A.inv() @ (A @ X) equals X' are statements about the VALUES of "
               "the objects: the image A @ X is an object of its own, so an in-place edit (item assignment, the library's own "
               "mutation interface) of the image, of X or of A after the application leaves the data of the other two exactly as "
               "they were; compared exactly (no arithmetic is involved in 'unchanged')")
    ctx.assume("representation histories: assigning rep[x] = T replaces the generator x AND its inverse letter (assigning through "
               "an inverse letter X makes the generator x the inverse of T); after any sequence of evaluations and assignments "
               "rep[w] is the word in the current generators; the generator is the transformation T was at the moment of the "
               "assignment, whatever the caller does with its object T afterwards")
    ctx.tolerances["projective rows"] = "sine of the angle between rows <= 1e-8 (entries <= ~50, errors measured 1e-15..1e-13; defects >= 1e-3)"
    ctx.tolerances["ideal coordinates"] = "1e-6 class (sqrt of a cancelling difference), DESIGN 4.3"
    depth = 4 if deep else 3
    if want("projective"):
        roots = [[{"d": d, "cls": c, "shape": s, "cx": cx}] for d in (1, 2, 3) for c in PROJ_CLASSES for s in SHAPES
                 for cx in (False, True)]
        ctx.bfs("projective-exact", "checks.c03:case_proj", roots, depth=depth, chunk=32,
                domains={"dimension": [1, 2, 3], "classes": PROJ_CLASSES, "composite shapes": SHAPES,
                         "object field": ["real", "complex"], "transformation alphabet": PROJ_GENS,
                         "construction": "column_vectors=True for even-indexed generators, transposed row matrix for odd"})
    if want("projective-illcond"):
        roots = [[{"d": d, "cls": c, "shape": s, "cx": cx, "alpha": "ill"}] for d in (1, 2, 3) for c in PROJ_CLASSES for s in SHAPES
                 for cx in (False, True)]
        ctx.bfs("projective-illcond", "checks.c03:case_proj", roots, depth=3 if deep else 2, chunk=32,
                domains={"dimension": [1, 2, 3], "classes": PROJ_CLASSES, "composite shapes": SHAPES,
                         "object field": ["real", "complex"], "transformation alphabet": ILL_ALPHABET,
                         "exactly invertible, condition up to 2^60": {
                             "Ub": "I + 2^30 E_01", "Lb": "I + 2^30 E_(n-1)0", "Ud": "I + 10^9 E_0(n-1)", "Gb": "I + 2^30 i E_01",
                             "Um": "I + 2^15 E_01", "Db": "diag(1, 2^30, 2^-30, 2^15)[:n]"},
                         "condition 2^30, inverse not exact": {"Lm": "I + (2^15+1) E_10", "Hm": "boost with eigenvalues 2^15, 2^-15"}})
    if want("hyperbolic"):
        roots = [[{"n": n, "cls": c, "shape": s, "seed": ctx.seed}] for n in (2, 3) for c in HYP_CLASSES for s in SHAPES]
        ctx.bfs("hyperbolic", "checks.c03:case_hyp", roots, depth=depth, chunk=16,
                domains={"dimension": [2, 3], "classes": HYP_CLASSES, "composite shapes": SHAPES,
                         "isometry alphabet n=2": hyp_gens(2), "isometry alphabet n=3": hyp_gens(3)})
    if want("mixed"):
        MS = [[], [3], [2, 3]] if q else [[], [1], [3], [2, 1], [1, 3], [2, 3]]
        cases = [{"n": n, "route": r, "sA": sa, "xcls": c, "sX": sx, "seed": ctx.seed}
                 for n in (2, 3) for r in MIX_ROUTES for c in mix_classes(r) for sa in MS for sx in MS]
        cases += [{"n": n, "route": r, "sA": sa, "xcls": c, "sX": sx, "seed": ctx.seed}
                  for n in (2, 3) for r in MIX_ILL_ROUTES for c in mix_classes(r) for sa in MIX_ILL_SHAPES for sx in MIX_ILL_SHAPES]
        ctx.product("mixed-classes", "checks.c03:case_mixed", cases, chunk=16,
                    domains={"dimension": [2, 3], "transformation A (class:matrix)": MIX_ROUTES,
                             "ill-conditioned A (condition 2^30..2^60, exactly invertible)": MIX_ILL_ROUTES,
                             "composite shapes of ill-conditioned A and their X": MIX_ILL_SHAPES,
                             "X, any A": MIX_X_TRANSFORMS + MIX_X_PROJ + MIX_X_HYP_ANY, "X, isometric A only": MIX_X_HYP_ISO,
                             "composite shapes of A and of X": MS, "broadcast modes": MIX_MODES,
                             "second factor B for associativity": ["P:uni", "H:iso", "H:uni"]})
    if want("independent"):
        cases = [{"n": n, "route": r, "xcls": c, "sX": sx, "edit": e, "seed": ctx.seed}
                 for n in (2, 3) for r in IND_ROUTES for c in ind_classes(r) for sx in IND_SHAPES for e in IND_EDITS[repr(sx)]]
        ctx.product("independent-image", "checks.c03:case_independent", cases, chunk=16,
                    domains={"dimension": [2, 3], "A, matrix exactly / nearly the identity": IND_ID_ROUTES, "A, generic": IND_GEN_ROUTES,
                             "X": MIX_X_TRANSFORMS + MIX_X_PROJ + MIX_X_HYP_ANY + MIX_X_HYP_ISO, "composite shapes of X": IND_SHAPES,
                             "application": IND_OPS, "object edited in place after the application": IND_TARGETS,
                             "edit (item-assignment key, composite shape of the assigned object) per shape of X": IND_EDITS,
                             "bounds": "the same in both tiers"})
    if want("representations"):
        L = 4 if q else 6
        cfgs = [("proj", m, cx, s) for m in (2, 3, 4) for cx in (False, True) for s in ("col", "row")]
        cfgs += [("hyp", m, False, s) for m in (3, 4) for s in ("col", "row")]
        cases = [{"kind": k, "m": m, "cx": cx, "supply": s, "word": w, "seed": ctx.seed}
                 for (k, m, cx, s) in cfgs for w in all_words(L)]
        orders = [["a", "b"], ["b", "a"], ["a", "b", "a"], ["A", "b"], ["b", "A"], ["a", "B"]]
        bulk = [{"kind": "proj", "m": m, "order": o, "dtypes": dt, "L": 3 if q else 4}
                for m in (2, 3) for o in orders for dt in ("complex-then-real", "int", "float")]
        bulk += [{"kind": "hyp", "m": m, "order": o, "dtypes": "float", "L": 3 if q else 4} for m in (3, 4) for o in orders[:3]]
        bulk = [dict(c, container=k) for k in WORD_CONTAINERS for c in bulk]
        ctx.product("representations-bulk", "checks.c03:case_rep_bulk", bulk, chunk=2,
                    domains={"assignment orders": orders, "generator dtypes": ["complex a + real b", "int64 a, b", "float64"],
                             "accessors": ["elements", "transformations", "isometries"],
                             "container the words are handed over in (a fresh one per accessor call)": WORD_CONTAINERS,
                             "words": "all words over {a,b,A,B} up to length %d" % (3 if q else 4)})
        ctx.product("representations", "checks.c03:case_rep", cases, chunk=128,
                    domains={"configurations": len(cfgs), "words": "all words over {a,b,A,B} of length <= %d" % L,
                             "points": "a single point, a composite (3,) point, a stacked composite (2,) point",
                             "generator supply": ["Cls(M, column_vectors=True)", "Cls(M.T)"]})
    if want("representations-histories"):
        seqs = rep_hist_sequences(3 if ctx.quick else 4)
        hcfgs = [("proj", 2, False), ("proj", 2, True), ("proj", 3, False), ("proj", 3, True), ("hyp", 3, False), ("hyp", 4, False)]
        hist = [{"kind": k, "m": m, "cx": cx, "seq": sq, "seed": ctx.seed} for (k, m, cx) in hcfgs for sq in seqs]
        # the caller recycles the objects it assigned: all sequences of length <= 2 (assignment after evaluation) and the
        # plain "assign a, b, then act" for every configuration
        hseqs = [["act"], ["bulk"]] + rep_hist_sequences(2 if ctx.quick else 3)
        hist += [{"kind": k, "m": m, "cx": cx, "seq": sq, "seed": ctx.seed, "hostile": True} for (k, m, cx) in hcfgs for sq in hseqs]
        ctx.product("representations-histories", "checks.c03:case_rep_hist", hist, chunk=8,
                    domains={"representation (kind, matrix size, complex)": hcfgs, "ops": REP_HIST_OPS,
                             "act": "rep[w] @ (3,) point and rep[w] as a matrix for every word of length <= 2 over {a,b,A,B}",
                             "act-inverse-letters": "the same for the words over {A,B} only", "bulk": "elements / transformations / isometries of all words of length <= 2",
                             "x=k": "rep[x] = k-th replacement generator (x an inverse letter: the generator becomes its inverse); "
                                    "supplied alternately as Cls(M, column_vectors=True) and Cls(M.T)",
                             "sequences": "all of length 2..%d with an assignment somewhere after an evaluation (%d)" % (3 if ctx.quick else 4, len(seqs)),
                             "final check": "all words of length <= 3",
                             "hostile caller": "the sequences ['act'], ['bulk'] and all of length 2..%d again with a caller that, directly after "
                                               "every rep[x] = T (the two initial ones included), overwrites ITS OWN object in place with another "
                                               "transformation (T[...] = other); key rep/history/caller-recycles-assigned-object/<kind>" % (2 if ctx.quick else 3)})
