"""C05 - representations are word homomorphisms; derived ones commute with evaluation.

Engine E over generator-table histories (`rep[g] = M`, re-assignment, inverse-first) on real
`Representation` objects against `mc/oracle/rep_model.py`; in every reached state ALL words of
length <= L over the assigned letters and their inverses are evaluated, on the representation
itself and on every derived representation, and compared with the oracle functor applied to the
oracle image.  Section histories-reads adds the op ["eval"] between assignments on the same object
(rep[w] for all short words incl. inverse letters, elements(), conjugate / dual / copy built and
evaluated): whatever the library remembers from a read must not survive a later assignment; states that
were read at different moments are not merged.  In every state reached by an assignment the history is also replayed with a
HOSTILE CALLER (`hostile_caller`: the caller scales / overwrites in place the arrays it has assigned, before or after copying the
representation; the copy's own matrices are scaled in place; `hostile_reader`: every value that [w] / element(w) / elements(words) of the plain
and of the wrapped representations handed OUT is scaled in place): a representation is defined by the matrices as they were when they
were assigned.  Section astype-integer: astype('int64') of representations into GL(n, Z).  Engine P: word utilities on all words, and cocycle/coboundary matrices of
representations with satisfied relations.
"""
import itertools
import os
import traceback
import warnings
import zlib

import numpy as np

from mc.oracle import rep_model as R

NAMES = {"simple": ["a", "b", "A", "B"], "long": ["s0", "s1", "S0", "S1"],
         # OVERLAPPING names: a multi-character name that also reads as a word in the one-character generators
         "overlap-ab": ["a", "b", "ab", "A", "B", "AB"], "overlap-aa": ["a", "b", "aa", "A", "B", "AA"]}
NMAT = 6
TOL = 1e-9


# ------------------------------------------------------------------------------------------
# matrix alphabets (pure functions of the dimension; ops refer to them by index)
# ------------------------------------------------------------------------------------------
def _E(n, i, j, x=1, dtype="int64"):
    M = np.zeros((n, n), dtype=dtype)
    M[i, j] = x
    return M


def gl_alphabet(n):
    """Six invertible n x n matrices: int64 unipotent, int64 unimodular (non-triangular),
    float64 dyadic (exact inverse), float64 generic, complex128 Gaussian unimodular,
    complex128 generic."""
    I = np.identity(n, dtype="int64")
    if n == 1:
        return [np.array([[-1]], dtype="int64"), np.array([[1]], dtype="int64"),
                np.array([[2.0]]), np.array([[-0.7]]),
                np.array([[1j]]), np.array([[1.1 - 0.4j]])]
    U = I + _E(n, 0, 1)
    bid = I + sum(_E(n, i, i + 1) for i in range(n - 1))
    low = I + _E(n, n - 1, 0, 2)
    m1 = bid @ low
    m1[:, 0] = -m1[:, 0]                      # determinant -1
    D = np.identity(n)
    D[0, 0], D[1, 1] = 2.0, 0.5
    Ui = I - _E(n, 0, 1)
    m2 = (U @ D @ Ui).astype("float64")
    c, s = np.cos(0.7), np.sin(0.7)
    m3 = np.identity(n)
    m3[0, 0], m3[0, 1], m3[1, 0], m3[1, 1] = 1.1 * c, -1.1 * s, 1.1 * s, 1.1 * c
    m3[n - 1, 0] += 0.3
    m3[0, n - 1] -= 0.45
    m4 = ((I + _E(n, 0, 1, 1j, "complex128")) @ (I + _E(n, n - 1, 0, 1 - 1j, "complex128")))
    m5 = m3.astype("complex128") * np.exp(0.3j)
    m5[0, n - 1] += 0.5j
    m5[n - 1, n - 1] += 0.25 - 0.5j
    return [U, m1, m2, m3, m4, m5]


def lorentz_alphabet(n):
    """Six matrices of O(n-1, 1) for the form diag(-1, 1, ..., 1), n = 3, 4."""
    def emb(M3):
        out = np.identity(n, dtype=M3.dtype)
        out[:3, :3] = M3
        return out
    boost = np.array([[1.25, 0.75, 0], [0.75, 1.25, 0], [0, 0, 1.0]])
    rot = np.array([[1, 0, 0], [0, 0.6, -0.8], [0, 0.8, 0.6]])
    refl = np.diag([1, -1, 1]).astype("int64")
    integral = np.array([[3, 2, 2], [2, 1, 2], [2, 2, 1]], dtype="int64")
    boost2 = -np.array([[1.25, 0, 0.75], [0, 1, 0], [0.75, 0, 1.25]])     # time-reversing
    perm = np.identity(n, dtype="int64")[[0] + list(range(2, n)) + [1]]   # cyclic spatial shift
    return [emb(boost), emb(rot), emb(refl), emb(integral), emb(boost2), perm]


def alphabet(kind, n):
    return gl_alphabet(n) if kind == "gl" else lorentz_alphabet(n)


# ------------------------------------------------------------------------------------------
# helpers
# ------------------------------------------------------------------------------------------
def _exc_violation(e, where):
    tb = traceback.extract_tb(e.__traceback__)
    site = "?"
    for fr in reversed(tb):
        if "/geometry_tools/" in fr.filename:
            site = "%s:%s" % (os.path.basename(fr.filename), fr.name)
            break
    else:
        if tb:
            fr = tb[-1]
            site = "HARNESS:%s:%s:%d" % (os.path.basename(fr.filename), fr.name, fr.lineno)
    return {"key": "exception/%s/%s/%s" % (type(e).__name__, site, where),
            "msg": "%s: %s: %s" % (where, type(e).__name__, str(e)[:240])}


def guard(v, where, f):
    """Run a library construction; an exception becomes a violation keyed like the runner's
    (plus the sub-check name) so that the remaining sub-checks of the state still run."""
    try:
        with warnings.catch_warnings():
            warnings.simplefilter("ignore")
            return f()
    except Exception as e:  # noqa: BLE001 - converted into a violation
        v.append(_exc_violation(e, where))
        return None


def wstr(w):
    return "".join(w) if all(len(x) == 1 for x in w) else "*".join(w)


def as_matrix(x):
    """Unwrap Transformation / Isometry results (column-vector convention)."""
    if isinstance(x, np.ndarray):
        return x
    return np.asarray(x.matrix).swapaxes(-1, -2)


def compare(v, key, words, got, exp, exact_mask=None, what="", cond=None):
    """got, exp: stacks (N, n, n).  Exact where exact_mask, else |d| <= TOL (1 + max|exp| + cond),
    cond = magnitude of the intermediate products (forward error bound of a matrix product)."""
    got, exp = np.asarray(got), np.asarray(exp)
    if got.shape != exp.shape:
        v.append({"key": key + "/shape", "msg": "%s: shape %r, expected %r" % (what or key, got.shape, exp.shape)})
        return False
    if got.dtype == object:
        try:
            got = got.astype(np.result_type(exp.dtype, np.float64))
        except Exception:  # noqa: BLE001
            v.append({"key": key + "/dtype", "msg": "%s: object array not numeric" % (what or key)})
            return False
    if got.size == 0:
        return True
    d = np.abs(got - exp).reshape(len(words), -1).max(axis=1)
    scale = 1 + np.abs(exp).reshape(len(words), -1).max(axis=1)
    if cond is not None:
        scale = scale + np.asarray(cond)
    bad = ~(d <= TOL * scale)
    if exact_mask is not None:
        bad = bad | (np.asarray(exact_mask) & (d != 0))
    if bad.any():
        i = int(np.argmax(bad))
        v.append({"key": key,
                  "msg": "%s: word %r: max|got-exp| = %.3g (scale %.3g)%s; %d/%d words differ; got %s expected %s" % (
                      what or key, wstr(words[i]), d[i], scale[i],
                      " [exact comparison]" if exact_mask is not None and exact_mask[i] and d[i] <= TOL * scale[i] else "",
                      int(bad.sum()), len(words), np.array2string(got[i], precision=6).replace("\n", ""),
                      np.array2string(exp[i], precision=6).replace("\n", ""))[:600]})
        return False
    return True


def evaluate(rep, words, simple):
    """rep[w] for every word: strings for one-character names, lists otherwise."""
    if simple:
        return [as_matrix(rep["".join(w)]) for w in words]
    return [as_matrix(rep[list(w)]) for w in words]


def stack(ms, n):
    if len(ms) == 0:
        return np.zeros((0, n, n))
    return np.stack([np.asarray(m) for m in ms])


def dtype_class(rep, assigned):
    kinds = {np.asarray(M).dtype.kind for M in assigned}
    k = np.dtype(rep.dtype).kind
    if k in "iu":
        return "rep-dtype=int"
    if "c" in kinds and k != "c":
        return "rep-dtype=real,complex-generators"
    return "rep-dtype=inexact"


# ------------------------------------------------------------------------------------------
# class contract of representations derived from a WRAPPED representation (ProjectiveRepresentation: words map to
# projective.Transformation; HyperbolicRepresentation: words map to hyperbolic.Isometry), as the unchanged library
# builds them (read off representation.py / projective.py / hyperbolic.py and observed):
#   "same"       built through self.__class__: the derived representation has the class of the source, its values the
#                source's value type (copy constructor, conjugate, dual, astype -- all via _compose -- and subgroup)
#   "projective" compose and gln_adjoint: via _compose for a ProjectiveRepresentation (so: same class);
#                HyperbolicRepresentation overrides both to return a ProjectiveRepresentation (the image of a
#                homomorphism out of O(n,1) is not in O(n,1)): values are Transformation objects, not Isometry
#   "wrapped"    sln_adjoint: via _compose and not overridden; only "some ProjectiveRepresentation with Transformation
#                values" is demanded (a HyperbolicRepresentation of adjoint matrices is not a statement about O(n,1))
#   "plain"      tensor_product, symmetric_square: built as Representation(): plain class, ndarray values
# ------------------------------------------------------------------------------------------
CLASS_CONTRACT = {"copy": "same", "conjugate": "same", "conjugate-inv_mat": "same", "conjugate(unwrap=False)": "same",
                  "conjugate-inv_mat(unwrap=False)": "same", "dual": "same", "astype-complex": "same", "astype-float": "same",
                  "subgroup(list)": "same", "subgroup(dict)": "same", "subgroup(list,compute_inverse=False)": "same",
                  "subgroup(generator_names)": "same", "subgroup(list-of-lists)": "same",
                  "compose:identity": "projective", "compose:block_include": "projective", "gln_adjoint": "projective",
                  "sln_adjoint": "wrapped", "tensor_product": "plain", "symmetric_square": "plain"}


def contract_classes(kind, src_cls):
    """(representation class, value class, exact class match?) demanded of a representation derived from a src_cls."""
    from geometry_tools import projective
    from geometry_tools.representation import Representation
    val = {"ProjectiveRepresentation": projective.Transformation}.get(src_cls.__name__)
    if val is None:
        from geometry_tools import hyperbolic
        val = hyperbolic.Isometry
    if kind == "same":
        return src_cls, val, True
    if kind == "projective":
        return projective.ProjectiveRepresentation, projective.Transformation, True
    if kind == "wrapped":
        return projective.ProjectiveRepresentation, projective.Transformation, False
    return Representation, np.ndarray, True


# ------------------------------------------------------------------------------------------
# the state check
# ------------------------------------------------------------------------------------------
def touch(rep, model, cfg, mats):
    """The op ["eval"]: read the representation the way a user does between two assignments -
    rep[w] for all words of length <= cfg["Le"] over the current letters (inverse letters
    included), elements(words), and derived representations built and evaluated.  Nothing is
    compared here (the state reached by the prefix ending in this op is a state of its own and is
    compared there); the point is that whatever the library remembers about these reads must not
    survive a later assignment."""
    simple = cfg["names"] == "simple"
    letters = model.letters()
    words = list(R.all_words(letters, cfg.get("Le", 3)))
    with warnings.catch_warnings():
        warnings.simplefilter("ignore")
        evaluate(rep, words, simple)
        rep.elements(["".join(w) for w in words] if simple else [list(w) for w in words])
        short = [w for w in words if len(w) <= 2]
        C = mats[1] if cfg["alpha"] == "gl" else mats[3]
        for d in (rep.conjugate(C.copy()), rep.dual(), type(rep)(rep)):
            evaluate(d, short, simple)
    return len(words) + 1 + 3 * (len(short) + 1)


def build(hist):
    """Execute a history on a fresh real Representation and on the model.  Ops: ["set", g, k]
    (rep[g] = alphabet[k]) and ["eval"] (`touch`: reads only, the model does not move).  Returns
    also the list of model snapshots taken at the eval ops (the hidden-state part of the key)."""
    from geometry_tools.representation import Representation
    cfg = hist[0][1]
    mats = alphabet(cfg["alpha"], cfg["dim"])
    rep = Representation()
    model = R.RepModel()
    assigned = {}
    snaps = []
    ntouch = 0
    for i, op in enumerate(hist[1:]):
        if op[0] == "eval":
            snaps.append("%d:%s:%s" % (i, model.key(), np.dtype(rep.dtype)))
            ntouch += touch(rep, model, cfg, mats)
            continue
        _, g, k = op
        rep[g] = mats[k].copy()
        model.assign(g, mats[k].copy())
        assigned[g] = mats[k]
        assigned.pop(R.inv_name(g), None)
    return rep, model, cfg, mats, assigned, snaps, ntouch


def state_ops(cfg, hist=()):
    sets = [["set", g, k] for g in NAMES[cfg["names"]] for k in cfg.get("mats", range(NMAT))]
    if "maxset" not in cfg:
        return sets
    # histories with reads in between: at most cfg["maxset"] assignments and cfg["maxeval"] eval
    # ops; an eval op only directly after an assignment and only when an assignment may still
    # follow (a trailing read is what the state check itself does)
    nset = sum(1 for op in hist[1:] if op[0] == "set")
    nev = sum(1 for op in hist[1:] if op[0] == "eval")
    # (histories without any read belong to the plain sections: an assignment that would complete such
    # a history is not enabled)
    ops = sets if nset < cfg["maxset"] and (nev >= 1 or nset + 1 < cfg["maxset"]) else []
    if 1 <= nset < cfg["maxset"] and nev < cfg["maxeval"] and hist[-1][0] == "set":
        ops = ops + [["eval"]]
    return ops


# the caller KEEPS the arrays it assigned and goes on using them (the representation stores the inverse letter separately:
# a generator that follows the caller's array leaves rep[g] rep[G] != I behind).  Only the caller's OWN arrays are touched,
# never an array read back from rep.generators.
HOSTILE = ["scale-after-assignment", "overwrite-after-assignment", "scale-after-copy", "copy-edited-in-place"]
HOSTILE_DOC = {"scale-after-assignment": "the caller scales its array in place (arr *= 2) after every rep[g] = arr",
               "overwrite-after-assignment": "the caller overwrites its array in place (arr[...] = 3 arr + 1) after every rep[g] = arr",
               "scale-after-copy": "the caller builds Representation(rep) and then scales the arrays it assigned to rep in place; the COPY is read",
               "copy-edited-in-place": "the matrices of Representation(rep) (the copy's own table) are scaled in place; the ORIGINAL is read"}


def hostile_caller(v, hist, model, simple):
    """Replay the assignments of the history on a fresh Representation with a caller that, directly after every
    `rep[g] = arr`, scales its array in place (arr *= 2) / overwrites it in place (arr[...] = 3 arr + 1), or that builds
    Representation(rep) and THEN scales all the arrays it ever assigned; the table and all words of length <= 2 (of the
    copy in the third mode) are those of the matrices as they were when they were assigned.  Fourth mode (the other
    direction of the copy's independence; done here on a replica because a shared table would spoil the state under
    test): the copy's own matrices are scaled in place, the original keeps its table."""
    from geometry_tools.representation import Representation
    cfg = hist[0][1]
    n = cfg["dim"]
    mats = alphabet(cfg["alpha"], n)
    letters = model.letters()
    words = list(R.all_words(letters, 2))
    want = stack([model.value(w) for w in words], n)
    wtab = stack([model.gens[g] for g in letters], n)
    t = 0
    for mode in HOSTILE:
        def replay(mode=mode):
            rep, held = Representation(), []
            for op in hist[1:]:
                if op[0] != "set":
                    continue
                arr = mats[op[2]].copy()
                rep[op[1]] = arr
                if mode == "scale-after-assignment":
                    arr *= 2
                elif mode == "overwrite-after-assignment":
                    arr[...] = 3 * arr + 1
                else:
                    held.append(arr)
            if mode == "scale-after-copy":
                rep = Representation(rep)
                for arr in held:
                    arr *= 2
            if mode == "copy-edited-in-place":
                cp = Representation(rep)
                for g in list(cp.generators):
                    cp.generators[g] *= 2
            if sorted(rep.generators.keys()) != sorted(letters):
                return None, None
            return stack([np.asarray(rep.generators[g]) for g in letters], n), stack(evaluate(rep, words, simple), n)
        r = guard(v, "alias:" + mode, replay)
        if r is None:
            continue
        t += len(words) + 1
        tab, vals = r
        key = ("alias/copy-table/" if mode == "copy-edited-in-place" else "alias/caller-array/") + mode
        what = HOSTILE_DOC[mode]
        if tab is None:
            v.append({"key": key, "msg": "%s: generator names differ from the model's %r" % (what, letters)})
        elif compare(v, key, [(g,) for g in letters], tab, wtab, None, what + ": stored generator vs the matrix that was assigned"):
            compare(v, key, words, vals, want, None, what + ": rep[w] vs the product of the matrices that were assigned")
    t += hostile_reader(v, hist, model, simple, letters, words, want, wtab)
    return t


# the other direction: values the representation handed OUT.  rep[w] / rep.element(w) / rep.elements(words) of the plain
# representation and of the wrapped ones (ProjectiveRepresentation; HyperbolicRepresentation on the Lorentz alphabet) belong to
# the caller, who scales them in place; the table (a generator AND its stored inverse) and every word value stay what they were.
READ_SOURCES = ["Representation", "ProjectiveRepresentation", "HyperbolicRepresentation"]


def _scale_in_place(x):
    """The caller scales a value it was handed in place (the matrix of a Transformation / Isometry; an array)."""
    arr = x if isinstance(x, np.ndarray) else getattr(x, "matrix", None)
    if not isinstance(arr, np.ndarray):
        return
    try:
        arr *= 2
    except ValueError:      # a read-only array: the library protects its table this way, nothing to do for the caller
        pass


def hostile_reader(v, hist, model, simple, letters, words, want, wtab):
    from geometry_tools import projective, hyperbolic
    from geometry_tools.representation import Representation
    cfg = hist[0][1]
    n = cfg["dim"]
    mats = alphabet(cfg["alpha"], n)
    jw = (lambda w: "".join(w)) if simple else (lambda w: list(w))
    t = 0
    for srcname in READ_SOURCES:
        if srcname == "HyperbolicRepresentation" and cfg["alpha"] != "lorentz":
            continue

        def replay(srcname=srcname):
            rep = Representation()
            for op in hist[1:]:
                if op[0] == "set":
                    rep[op[1]] = mats[op[2]].copy()
            if srcname == "ProjectiveRepresentation":
                rep = projective.ProjectiveRepresentation(rep)
            elif srcname == "HyperbolicRepresentation":
                rep = hyperbolic.HyperbolicRepresentation(rep)
            if sorted(rep.generators.keys()) != sorted(letters):
                return None, None
            # one-letter words, the empty word, longer words: through [], element(), elements()
            for w in words:
                _scale_in_place(rep[jw(w)])
            for w in words:
                _scale_in_place(rep.element(jw(w)))
            _scale_in_place(rep.elements([jw(w) for w in words]))
            for w in words:
                if len(w) == 1:
                    _scale_in_place(rep.elements([jw(w)]))
            return stack([np.asarray(rep.generators[g]) for g in letters], n), stack(evaluate(rep, words, simple), n)
        r = guard(v, "alias:returned-value:" + srcname, replay)
        if r is None:
            continue
        t += 3 * len(words) + 2
        tab, vals = r
        key = "alias/returned-value/" + srcname
        what = "the caller scales in place (x *= 2) every value that [w], element(w), elements(words) of a %s returned (words of length <= 2)" % srcname
        if tab is None:
            v.append({"key": key, "msg": "%s: generator names differ from the model's %r" % (what, letters)})
        elif compare(v, key, [(g,) for g in letters], tab, wtab, None, what + ": stored generator vs the matrix that was assigned"):
            compare(v, key, words, vals, want, None, what + ": rep[w] read again vs the product of the matrices that were assigned")
    return t


def check_state(hist):
    from geometry_tools import utils as gutils
    from geometry_tools import projective, hyperbolic, representation
    from geometry_tools.representation import Representation
    from geometry_tools.lie import hom

    rep, model, cfg, mats, assigned, snaps, ntouch = build(hist)
    v = []
    n, L, simple = cfg["dim"], cfg["L"], cfg["names"] == "simple"
    # a state reached by an eval op is compared lightly (word values, laws, elements() on the words
    # the op has just read: a second read must give the same, correct, values); the full comparison
    # is for states reached by an assignment
    light = len(hist) > 1 and hist[-1][0] == "eval"
    if light:
        L = cfg.get("Le", 3)
    # histories that differ in where they read and what the table was at that moment are NOT merged:
    # what the library remembers from a read is hidden state
    key = repr(sorted(cfg.items())) + "|" + model.key() + "|" + str(np.dtype(rep.dtype)) + "|" + "|".join(snaps)
    ops = state_ops(cfg, hist)
    if not model.gens:
        ok = list(rep.generators) == [] and rep.dim is None
        if not ok:
            v.append({"key": "state/empty", "msg": "fresh representation has generators %r" % (list(rep.generators),)})
        return {"v": v, "key": key, "ops": ops, "t": 1, "o": "empty", "nt": False}

    ncalls = len(hist) + ntouch
    # ---- the generator table itself
    if list(rep.generators.keys()) != model.letters():
        v.append({"key": "table/names", "msg": "generator names %r, model %r" % (list(rep.generators), model.letters())})
        return {"v": v, "key": key, "ops": [], "t": ncalls, "o": "table", "nt": True}
    if rep.dim != n:
        v.append({"key": "table/dim", "msg": "dim %r != %d" % (rep.dim, n)})
    letters = model.letters()
    gen_exact = {}
    for g in letters:
        lg, og = np.asarray(rep.generators[g]), model.gens[g]
        gen_exact[g] = bool(lg.shape == og.shape and np.array_equal(lg, og) and R._is_integral(og))
    G = stack([rep.generators[g] for g in letters], n)
    compare(v, "table/generator-matrix", [(g,) for g in letters], G, stack([model.gens[g] for g in letters], n),
            what="stored generator (inverse under the case-swapped name)")

    words = list(R.all_words(letters, L))
    tab = model.table(L, letters)
    T = stack([tab[w] for w in words], n)
    Tinv = stack([tab[R.formal_inverse(w)] for w in words], n)
    index = {w: i for i, w in enumerate(words)}
    exact = np.array([all(gen_exact[x] for x in w) for w in words])
    # conditioning of a word: max over splits w = uv of |rho(u)| |rho(v)| (times the matrix size); the
    # rounding error of any bracketing of the product is bounded by a small multiple of eps * this
    PI = np.zeros((len(words), L + 1), dtype=int)
    SI = np.zeros((len(words), L + 1), dtype=int)
    for i_, w_ in enumerate(words):
        for k_ in range(L + 1):
            kk = min(k_, len(w_))
            PI[i_, k_], SI[i_, k_] = index[w_[:kk]], index[w_[kk:]]
    INV = np.array([index[R.formal_inverse(w_)] for w_ in words])

    def norms_of(E):
        return np.abs(E).reshape(len(E), -1).max(axis=1) if E.size else np.zeros(len(E))

    def cond_of(E):
        nr = norms_of(E)
        return E.shape[-1] * (nr[PI] * nr[SI]).max(axis=1)
    nT, cT = norms_of(T), cond_of(T)
    cls = dtype_class(rep, assigned.values())
    allreal = T.dtype.kind != "c"
    no_int_generator = all(np.asarray(M).dtype.kind not in "iu" for M in rep.generators.values())

    # ---- evaluation = oracle product (hence rep[uv] = rep[u] rep[v] for every split)
    vals = guard(v, "evaluate", lambda: evaluate(rep, words, simple))
    if vals is None:
        return {"v": v, "key": key, "ops": [], "t": ncalls, "o": "exc", "nt": True}
    ncalls += len(words)
    V = stack(vals, n)
    compare(v, "eval/word-value", words, V, T, exact, "rep[w] vs left-to-right product", cond=cT)
    I = np.identity(n)
    if not np.array_equal(V[0], I):
        v.append({"key": "eval/empty-word", "msg": "rep[''] = %r" % (V[0].tolist(),)})
    # every split, on the library's own values
    sw, lhs, rhs, sc = [], [], [], []
    for w in words:
        for k in range(1, len(w)):
            sw.append(w)
            lhs.append(V[index[w]])
            rhs.append(V[index[w[:k]]] @ V[index[w[k:]]])
            sc.append(cT[index[w]] + cT[index[w[:k]]] * nT[index[w[k:]]] + nT[index[w[:k]]] * cT[index[w[k:]]])
    if sw:
        compare(v, "eval/split-law", sw, stack(lhs, n), stack(rhs, n), None, "rep[uv] vs rep[u] rep[v]", cond=np.array(sc))
    # inverse letters and formal inverses
    prod = np.stack([V[index[R.formal_inverse(w)]] @ V[index[w]] for w in words])
    compare(v, "eval/inverse", words, prod, np.broadcast_to(I, prod.shape), exact & exact[INV],
            "rep[w^-1] rep[w] vs I", cond=n * (cT[INV] * nT + nT[INV] * cT + nT[INV] * nT))
    # free reduction
    red = [R.free_reduce(w) for w in words]
    compare(v, "eval/free-reduction", words, V, np.stack([V[index[r]] for r in red]), exact, "rep[w] vs rep[free_reduce(w)]", cond=cT)
    # elements() stacks rep[w]
    if simple:
        el = guard(v, "elements", lambda: rep.elements(["".join(w) for w in words]))
    else:
        el = guard(v, "elements", lambda: rep.elements([list(w) for w in words]))
    if el is not None:
        el = np.asarray(el)
        if el.shape != V.shape or not np.array_equal(el, V):
            v.append({"key": "eval/elements", "msg": "elements(words) differs from the stack of rep[w] (shape %r vs %r)" % (el.shape, V.shape)})
    if not simple:
        # '*'-strings through element(w, parse_simple=False)
        star = guard(v, "element-star", lambda: [rep.element("*".join(w), parse_simple=False) for w in words[1:]])
        if star is not None:
            ncalls += len(star)
            if not np.array_equal(stack(star, n), V[1:]):
                v.append({"key": "eval/star-strings", "msg": "element('x*y', parse_simple=False) differs from rep[['x','y']]"})
    if light:
        o = "read|%s|%s|%d|%s" % (cls, str(T.dtype), len(letters), ",".join(sorted({x["key"].split("/")[1] for x in v})))
        return {"v": v, "key": key, "ops": ops, "t": ncalls, "o": o + "|" + str(zlib.crc32(key.encode()) % 997), "nt": True}

    # ---- derived representations
    def derived(name, make, expected, exact_ok=False, unwrap=True, cls_in_key=False, wordsel=None):
        nonlocal ncalls
        d = guard(v, name, make)
        if d is None:
            return None
        ws = words if wordsel is None else wordsel
        got = guard(v, name + ":evaluate", lambda: evaluate(d, ws, simple))
        if got is None:
            return d
        ncalls += len(ws)
        exp = expected() if callable(expected) else expected
        m = exp.shape[-1]
        k = "derived/%s" % name + ("/" + cls if cls_in_key else "")
        if list(d.generators.keys()) != letters and sorted(d.generators.keys()) != sorted(letters):
            v.append({"key": k + "/names", "msg": "%s has generators %r, original %r" % (name, list(d.generators), letters)})
        compare(v, k, ws, stack(got, m), exp, exact if exact_ok else None, "%s[w] vs functor(rho(w))" % name,
                cond=cond_of(exp) if wordsel is None and len(exp) == len(words) else None)
        return d

    cp = derived("copy", lambda: Representation(rep), T, True)
    if cp is not None:
        # the copy has its own table: assigning there must not move the original
        g0 = letters[0]
        other = mats[(1 if np.array_equal(mats[0], np.asarray(rep.generators[g0])) else 0)]

        def _mutate():
            cp[g0] = other.copy()
            return evaluate(rep, words[:1 + len(letters)], simple)
        after = guard(v, "copy:independence", _mutate)
        if after is not None and not np.array_equal(stack(after, n), V[:1 + len(letters)]):
            v.append({"key": "derived/copy/independence", "msg": "assigning %r in the copy changed the original" % g0})
    ncalls += hostile_caller(v, hist, model, simple)

    C = mats[1] if cfg["alpha"] == "gl" else mats[3]
    Ci = R.inverse(C)
    short = [w for w in words if len(w) <= 2]
    sel = np.array([index[w] for w in short])
    Ts, Tis = T[sel], Tinv[sel]
    derived("conjugate", lambda: rep.conjugate(C.copy()), lambda: Ci @ T @ C)
    # the optional precomputed inverse, in EVERY state (words of length <= 2), and unwrap=False (for the plain class the matrices are
    # used as they are either way)
    derived("conjugate-inv_mat", lambda: rep.conjugate(C.copy(), inv_mat=Ci.copy()), lambda: Ci @ Ts @ C, wordsel=short)
    derived("conjugate(unwrap=False)", lambda: rep.conjugate(C.copy(), unwrap=False), lambda: Ci @ Ts @ C, wordsel=short)
    derived("conjugate-inv_mat(unwrap=False)", lambda: rep.conjugate(C.copy(), Ci.copy(), unwrap=False), lambda: Ci @ Ts @ C, wordsel=short)
    if cfg.get("rich"):
        C5 = mats[5] if cfg["alpha"] == "gl" else mats[0]
        derived("conjugate-inv_mat", lambda: rep.conjugate(C5.copy(), inv_mat=R.inverse(C5)), lambda: R.inverse(C5) @ T @ C5)
    dual = derived("dual", lambda: rep.dual(), lambda: Tinv.swapaxes(-1, -2))
    cdt = "float64" if allreal else "complex128"
    derived("astype-complex", lambda: rep.astype("complex128"), lambda: T.astype("complex128"), True)
    if allreal:
        derived("astype-float", lambda: rep.astype("float64"), lambda: T.astype("float64"), True)
    if all(M.dtype.kind in "iu" for M in model.gens.values()):
        # every generator an exact integer matrix with an integer inverse: the integer dtype holds the whole image
        derived("astype-int64", lambda: rep.astype("int64"), lambda: T.astype("int64"))

    # compose with the lie.hom wrappers (expected: the library's hom on the oracle image where the
    # hom accepts stacks, the oracle functor otherwise)
    derived("compose:identity", lambda: rep.compose(lambda M: M), T, True)
    blk = derived("compose:block_include", lambda: rep.compose(hom.block_include(n + 1)), lambda: R.block_include(T, n + 1))
    # every padding 0..3 of the block inclusion GL(n) -> GL(n + pad): diag(rho(w), I_pad)
    for pad in (0, 2, 3):
        derived("compose:block_include(+%d)" % pad, lambda pad=pad: rep.compose(hom.block_include(n + pad)),
                lambda pad=pad: R.block_include(Ts, n + pad), wordsel=short)
    derived("compose:slc_to_slr", lambda: rep.compose(hom.slc_to_slr()), lambda: R.realify(T))
    derived("compose:gln_adjoint", lambda: rep.compose(hom.gln_adjoint(dtype=cdt)), lambda: R.gl_adjoint_stack(T, Tinv))
    if n >= 2:
        derived("compose:sln_adjoint", lambda: rep.compose(hom.sln_adjoint(dtype=cdt)), lambda: R.sl_adjoint_stack(T, Tinv))
    if n == 2:
        if no_int_generator:
            from geometry_tools import lie
            for k in cfg.get("irreps", [3]):
                derived("compose:sl2_irrep(%d)" % k, lambda k=k: rep.compose(hom.sl2_irrep(k)),
                        lambda k=k: np.stack([np.array(R.sym_power(M, k)) for M in T]))
            derived("compose:sl2_to_so21", lambda: rep.compose(hom.sl2_to_so21()),
                    lambda: lie.sl2_to_so21(T.astype(cdt)))
        Cb = np.array([[1, -1, 0, 0], [1, 1, 0, 0], [0, 0, 1, 0], [0, 0, 0, 1.0]])
        Cbi = R.inverse(Cb)
        derived("compose:sl2c_to_so31", lambda: rep.compose(hom.sl2c_to_so31()),
                lambda: Cbi @ R.herm_action_stack(T) @ Cb)

    # adjoint methods of the representation
    derived("gln_adjoint", lambda: rep.gln_adjoint(), lambda: R.gl_adjoint_stack(T, Tinv), cls_in_key=True)
    if n >= 2:
        derived("sln_adjoint", lambda: rep.sln_adjoint(), lambda: R.sl_adjoint_stack(T, Tinv), cls_in_key=True)

    # tensor products: with the dual (same dimension, different matrices) and with the block
    # inclusion (different dimension: detects a swapped factor order)
    if dual is not None:
        derived("tensor_product(dual)", lambda: rep.tensor_product(dual), lambda: R.kron_stack(T, Tinv.swapaxes(-1, -2)))
        derived("tensor_product(dual,self)", lambda: dual.tensor_product(rep), lambda: R.kron_stack(Tinv.swapaxes(-1, -2), T))
    if blk is not None:
        derived("tensor_product(block)", lambda: rep.tensor_product(blk), lambda: R.kron_stack(T, R.block_include(T, n + 1)))

    # symmetric square: oracle Sym^2 in the monomial basis, transported by the documented index map
    def _sym_expected(T=T):
        pairs = R.sym_pairs(n)
        pos = [representation.sym_index(i, j, n) for (i, j) in pairs]
        out = []
        for M in T:
            S = R.sym2(M)
            E = np.zeros_like(S)
            E[np.ix_(pos, pos)] = S
            out.append(E)
        return np.stack(out)
    sq = derived("symmetric_square", lambda: rep.symmetric_square(), _sym_expected)
    if sq is not None:
        def _intertwine():
            incl = representation.symmetric_inclusion(n)
            proj = representation.symmetric_projection(n)
            S = stack(evaluate(sq, words, simple), n * (n + 1) // 2)
            return incl, proj, S
        r = guard(v, "symmetric_square:intertwine", _intertwine)
        if r is not None:
            incl, proj, S = r
            KK = R.kron_stack(T, T)
            compare(v, "derived/symmetric_square/inclusion-intertwines", words, incl @ S, KK @ incl, None,
                    "incl Sym2(w) vs (rho(w) x rho(w)) incl", cond=cond_of(KK))
            if not np.array_equal(proj @ incl, np.identity(n * (n + 1) // 2)):
                v.append({"key": "derived/symmetric_square/projection-inclusion", "msg": "symmetric_projection @ symmetric_inclusion != I"})

    # subgroups
    lows = model.lower_names()
    if len(lows) == 1:
        g = lows[0]
        subwords = [(g, g), (R.inv_name(g),)]
    else:
        a, b = lows[0], lows[1]
        subwords = [(a, b), (b, R.inv_name(a)), (a, a, R.inv_name(b))]
    Ls = cfg.get("Lsub", 2)

    def sub_check(name, make, names, compute_inverse):
        nonlocal ncalls
        s = guard(v, name, make)
        if s is None:
            return
        tabw = dict(zip(names, subwords))
        sletters = []
        for x in names:
            sletters += [x, R.inv_name(x)]
        if sorted(s.generators.keys()) != sorted(sletters):
            v.append({"key": "derived/%s/names" % name, "msg": "subgroup generators %r, expected %r" % (list(s.generators), sletters)})
            return
        ws = list(R.all_words(sletters, Ls))
        got = guard(v, name + ":evaluate", lambda: [as_matrix(s["".join(w)]) for w in ws])
        if got is None:
            return
        ncalls += len(ws)
        subs = [R.substitute(w, tabw) for w in ws]
        exp = np.stack([model.value(u) for u in subs])
        gmax = {g: max(1.0, float(np.abs(M).max())) for g, M in model.gens.items()}
        crude = np.array([n * float(np.prod([gmax[x] for x in u])) if u else 0.0 for u in subs])
        compare(v, "derived/%s" % name, ws, stack(got, n), exp, None, "%s[w] vs rho(substituted w)" % name, cond=crude)

    if simple:
        sw_s = ["".join(w) for w in subwords]
        std = list("abc")[:len(subwords)]
        sub_check("subgroup(list)", lambda: rep.subgroup(list(sw_s)), std, True)
        sub_check("subgroup(list,compute_inverse=False)", lambda: rep.subgroup(list(sw_s), compute_inverse=False), std, False)
        dn = list("xyz")[:len(subwords)]
        sub_check("subgroup(dict)", lambda: rep.subgroup(dict(zip(dn, sw_s))), dn, True)
        sub_check("subgroup(dict,compute_inverse=False)", lambda: rep.subgroup(dict(zip(dn, sw_s)), compute_inverse=False), dn, False)
        gn = list("pqr")[:len(subwords)]
        sub_check("subgroup(generator_names)", lambda: rep.subgroup(list(sw_s), generator_names=gn), gn, True)
    else:
        std = list("abc")[:len(subwords)]
        sub_check("subgroup(list-of-lists)", lambda: rep.subgroup([list(w) for w in subwords]), std, True)

    # projective / hyperbolic wrapping
    pr = derived("ProjectiveRepresentation", lambda: projective.ProjectiveRepresentation(rep), T, True)
    if pr is not None:
        def _pel():
            e = pr.elements(["".join(w) for w in words] if simple else [list(w) for w in words])
            return as_matrix(e)
        pe = guard(v, "ProjectiveRepresentation:elements", _pel)
        if pe is not None and not (pe.shape == V.shape and np.array_equal(pe, V)):
            v.append({"key": "derived/ProjectiveRepresentation/elements", "msg": "elements() of the projective wrapper differs from rep[w]"})

        def _passign():
            p2 = projective.ProjectiveRepresentation()
            for g, M in assigned.items():
                p2[g] = projective.Transformation(np.asarray(M), column_vectors=True)
            return p2
        # assignment order inside `assigned` is the order of last assignment, names equal
        p2 = guard(v, "ProjectiveRepresentation:assign", _passign)
        if p2 is not None:
            ws = [w for w in words if len(w) <= 2]
            got = guard(v, "ProjectiveRepresentation:assign:evaluate", lambda: evaluate(p2, ws, simple))
            if got is not None:
                compare(v, "derived/ProjectiveRepresentation/assign-transformations", ws, stack(got, n),
                        np.stack([tab[w] for w in ws]), None, "representation built from Transformation objects")
    if cfg["alpha"] == "lorentz":
        hr = derived("HyperbolicRepresentation", lambda: hyperbolic.HyperbolicRepresentation(rep), T, True)
        if hr is not None:
            J = np.diag([-1.0] + [1.0] * (n - 1))
            got = guard(v, "HyperbolicRepresentation:isometries", lambda: as_matrix(hr.isometries(
                ["".join(w) for w in words] if simple else [list(w) for w in words])))
            if got is not None:
                compare(v, "derived/HyperbolicRepresentation/form", words, got.swapaxes(-1, -2) @ J @ got,
                        np.broadcast_to(J, got.shape), None, "isometries(w)^T J isometries(w) vs J", cond=n * nT * (nT + 2 * cT))

    # ---- representations derived from the WRAPPED representations: class contract (CLASS_CONTRACT) and values
    def wrapped_family(src, srcname):
        nonlocal ncalls
        src_cls = type(src)
        wrapC = src_cls.wrap_func(np.asarray(C).copy())
        wrapCi = src_cls.wrap_func(np.asarray(Ci).copy())
        # conjugate: by wrapped objects (unwrap=True, the default) and by plain matrices (unwrap=False), each with and
        # without the optional precomputed inverse
        items = [("copy", lambda: src_cls(src), lambda: Ts),
                 ("conjugate", lambda: src.conjugate(wrapC), lambda: Ci @ Ts @ C),
                 ("conjugate-inv_mat", lambda: src.conjugate(wrapC, inv_mat=wrapCi), lambda: Ci @ Ts @ C),
                 ("conjugate(unwrap=False)", lambda: src.conjugate(np.asarray(C).copy(), unwrap=False), lambda: Ci @ Ts @ C),
                 ("conjugate-inv_mat(unwrap=False)", lambda: src.conjugate(np.asarray(C).copy(), np.asarray(Ci).copy(), unwrap=False),
                  lambda: Ci @ Ts @ C),
                 ("dual", lambda: src.dual(), lambda: Tis.swapaxes(-1, -2)),
                 ("astype-complex", lambda: src.astype("complex128"), lambda: Ts.astype("complex128")),
                 ("compose:identity", lambda: src.compose(lambda M: M), lambda: Ts),
                 ("compose:block_include", lambda: src.compose(hom.block_include(n + 2)), lambda: R.block_include(Ts, n + 2)),
                 ("gln_adjoint", lambda: src.gln_adjoint(), lambda: R.gl_adjoint_stack(Ts, Tis)),
                 ("tensor_product", lambda: src.tensor_product(src), lambda: R.kron_stack(Ts, Ts)),
                 ("symmetric_square", lambda: src.symmetric_square(), lambda: _sym_expected(Ts))]
        if allreal:
            items.append(("astype-float", lambda: src.astype("float64"), lambda: Ts.astype("float64")))
        if n >= 2:
            items.append(("sln_adjoint", lambda: src.sln_adjoint(), lambda: R.sl_adjoint_stack(Ts, Tis)))
        subs = []
        if simple:
            sw_s = ["".join(w) for w in subwords]
            subs = [("subgroup(list)", lambda: src.subgroup(list(sw_s)), list("abc")[:len(subwords)]),
                    ("subgroup(list,compute_inverse=False)", lambda: src.subgroup(list(sw_s), compute_inverse=False), list("abc")[:len(subwords)]),
                    ("subgroup(dict)", lambda: src.subgroup(dict(zip(list("xyz"), sw_s))), list("xyz")[:len(subwords)]),
                    ("subgroup(generator_names)", lambda: src.subgroup(list(sw_s), generator_names=list("pqr")[:len(subwords)]), list("pqr")[:len(subwords)])]
        else:
            subs = [("subgroup(list-of-lists)", lambda: src.subgroup([list(w) for w in subwords]), list("abc")[:len(subwords)])]

        def judge(name, d, ws, join, expected):
            nonlocal ncalls
            rcls, vcls, strict = contract_classes(CLASS_CONTRACT[name], src_cls)
            k = "derived-class/%s/%s" % (srcname, name)
            if (type(d) is not rcls) if strict else (not isinstance(d, rcls)):
                v.append({"key": k + "/representation", "msg": "%s of a %s is a %s, the library's class contract says %s" % (
                    name, srcname, type(d).__name__, rcls.__name__)})
            raw = guard(v, "%s/%s:evaluate" % (srcname, name), lambda: [d[join(w)] for w in ws])
            if raw is None:
                return
            ncalls += len(ws)
            badt = [wstr(w) for w, x in zip(ws, raw) if ((type(x) is not vcls) if strict else (not isinstance(x, vcls)))]
            if badt:
                v.append({"key": k + "/value-type", "msg": "%s of a %s: [w] is a %s for w = %r ..., the source's [w] is a %s and the contract says %s" % (
                    name, srcname, type(raw[[wstr(w) for w in ws].index(badt[0])]).__name__, badt[0], type(src[join(ws[0])]).__name__, vcls.__name__)})
                if not all(isinstance(x, np.ndarray) or hasattr(x, "matrix") for x in raw):
                    return
            el = guard(v, "%s/%s:elements" % (srcname, name), lambda: d.elements([join(w) for w in ws]))
            if el is not None and ((type(el) is not vcls) if strict else (not isinstance(el, vcls))):
                v.append({"key": k + "/elements-type", "msg": "%s of a %s: elements(words) is a %s, contract %s" % (name, srcname, type(el).__name__, vcls.__name__)})
            exp = expected()
            # a wrongly typed value is reported above; its matrix is still compared in the convention its type states
            compare(v, "derived/%s/%s" % (srcname, name), ws, stack([as_matrix(x) for x in raw], exp.shape[-1]), exp, None,
                    "%s of a %s: [w] vs functor(rho(w))" % (name, srcname))

        jw = (lambda w: "".join(w)) if simple else (lambda w: list(w))
        for name, make, expected in items:
            d = guard(v, "%s/%s" % (srcname, name), make)
            if d is not None:
                judge(name, d, short, jw, expected)
        for name, make, names in subs:
            s = guard(v, "%s/%s" % (srcname, name), make)
            if s is None:
                continue
            sletters = []
            for x in names:
                sletters += [x, R.inv_name(x)]
            if sorted(s.generators.keys()) != sorted(sletters):
                v.append({"key": "derived/%s/%s/names" % (srcname, name), "msg": "subgroup generators %r, expected %r" % (list(s.generators), sletters)})
                continue
            ws = list(R.all_words(sletters, 2))
            tabw = dict(zip(names, subwords))
            judge(name, s, ws, lambda w: "".join(w), lambda: np.stack([model.value(R.substitute(w, tabw)) for w in ws]))

    if pr is not None and not v:
        wrapped_family(pr, "ProjectiveRepresentation")
    if cfg["alpha"] == "lorentz" and hr is not None and not v:
        wrapped_family(hr, "HyperbolicRepresentation")

    # ---- Fox calculus (one-character names: words as strings; multi-character names: words as lists of names)
    if cfg.get("fox", True):
        lows = model.lower_names()
        Lf = cfg.get("Lfox", L)
        fw = [w for w in words if 1 <= len(w) <= Lf]

        def _diffs():
            return [rep.differential("".join(w) if simple else list(w)) for w in fw]
        D = guard(v, "differential", _diffs)
        if D is not None:
            ncalls += len(fw)
            D = np.stack([np.asarray(x) for x in D])
            if D.shape != (len(fw), n, n * len(lows)):
                v.append({"key": "fox/shape", "msg": "differential(w) has shape %r, expected %r" % (D.shape[1:], (n, n * len(lows)))})
            else:
                if D.dtype == object:
                    D = D.astype(cdt)
                Tw = np.stack([tab[w] for w in fw])
                ex = np.array([exact[index[w]] for w in fw])
                # fundamental formula with the oracle's rho
                rhs = np.zeros(Tw.shape, dtype=np.result_type(D, Tw))
                for k, g in enumerate(lows):
                    rhs = rhs + D[:, :, k * n:(k + 1) * n] @ (model.gens[g] - R.identity(n))
                fi = np.array([index[w] for w in fw])
                gm = 1 + max(float(np.abs(model.gens[g]).max()) for g in lows)
                fcond = n * L * gm * ((nT[PI[fi]]).max(axis=1) + (cT[PI[fi]]).max(axis=1))
                compare(v, "fox/fundamental-formula", fw, rhs, Tw - R.identity(n), ex,
                        "sum_g D_g(w)(rho(g)-I) vs rho(w)-I", cond=fcond)
                # each block against the oracle's Fox derivative
                for k, g in enumerate(lows):
                    expb = []
                    for w in fw:
                        acc = np.zeros((n, n), dtype="int64")
                        for u, c in sorted(R.fox(g, w).items()):
                            acc = acc + c * tab[u]
                        expb.append(acc)
                    compare(v, "fox/derivative-block", fw, D[:, :, k * n:(k + 1) * n], np.stack(expb), ex,
                            "block d/d%s of differential(w) vs rho(Fox derivative)" % g, cond=fcond)
        e0 = guard(v, "differential(empty-word)", lambda: np.asarray(rep.differential("" if simple else [])))
        if e0 is not None and not (e0.shape == (n, n * len(lows)) and not np.any(e0 != 0)):
            v.append({"key": "fox/empty-word", "msg": "differential('') = %r, expected zeros" % (e0.tolist(),)})

    o = "%s|%s|%d|%s" % (cls, str(T.dtype), len(letters), ",".join(sorted({x["key"].split("/")[1] for x in v})))
    return {"v": v, "key": key, "ops": ops, "t": ncalls, "o": o + "|" + str(zlib.crc32(key.encode()) % 997), "nt": True}


def case_state(hist):
    return check_state(hist)


# ------------------------------------------------------------------------------------------
# overlapping generator names: one-character generators a, b AND a multi-character generator whose name
# ("ab", "aa"; inverse "AB", "AA") also reads as a word in a, b.  The two ways of writing a word stay apart:
# a plain STRING is a product of one-character generators, letter by letter (rep["ab"] = rho(a) rho(b)); a
# LIST (or a '*'-string through element(w, parse_simple=False)) is a product of generators by name
# (rep[["ab"]] = the generator named "ab").  Both are word homomorphisms, elements() agrees with [] in both
# forms, derived representations follow.
# ------------------------------------------------------------------------------------------
# ------------------------------------------------------------------------------------------
# representations constructed with parse_simple=False: words are '*'-strings of generator names; every derived
# representation must read them the same way (bound to the list-word answers of an equal default representation)
# ------------------------------------------------------------------------------------------
STAR_DERIVED = ["copy", "conjugate", "dual", "astype-complex", "compose:identity", "compose:block_include", "gln_adjoint",
                "sln_adjoint", "ProjectiveRepresentation"]


def case_star(case):
    from geometry_tools import projective
    from geometry_tools.representation import Representation
    from geometry_tools.lie import hom
    n, names, assign = case["dim"], NAMES[case["names"]], case["assign"]
    mats = alphabet("gl", n)
    star, plain = Representation(parse_simple=False), Representation()
    letters = []
    for g, k in assign:
        star[g] = mats[k].copy()
        plain[g] = mats[k].copy()
        for x in (g, R.inv_name(g)):
            if x not in letters:
                letters.append(x)
    words = [w for w in R.all_words(letters, 2) if len(w) >= 1]
    strs = ["*".join(w) for w in words]
    C = mats[1]
    subw = {"x": [letters[0], letters[-1]], "y": [letters[-1]]}
    makers = {
        "copy": lambda r: Representation(r),
        "conjugate": lambda r: r.conjugate(C.copy()),
        "dual": lambda r: r.dual(),
        "astype-complex": lambda r: r.astype("complex128"),
        "compose:identity": lambda r: r.compose(lambda M: M),
        "compose:block_include": lambda r: r.compose(hom.block_include(n + 1)),
        "gln_adjoint": lambda r: r.gln_adjoint(),
        "sln_adjoint": lambda r: r.sln_adjoint(),
        "ProjectiveRepresentation": lambda r: projective.ProjectiveRepresentation(r),
    }
    v, t = [], 0

    def mat(x):
        return np.asarray(x.matrix if hasattr(x, "matrix") else x)

    # the representation itself
    got = guard(v, "star/elements", lambda: np.asarray(star.elements(strs)))
    want = np.stack([mat(plain[list(w)]) for w in words])
    t += 2 * len(words)
    if got is not None and (got.shape != want.shape or not np.array_equal(got, want)):
        v.append({"key": "star/elements", "msg": "Representation(parse_simple=False).elements(%r...) differs from the list-word values" % strs[:3]})
    for name in STAR_DERIVED:
        if name == "sln_adjoint" and n < 2:
            continue
        if name == "subgroup(dict)":
            ds = guard(v, "star/" + name, lambda: star.subgroup({k: "*".join(w) for k, w in subw.items()}))
            dp = guard(v, "star/" + name + ":reference", lambda: plain.subgroup({k: list(w) for k, w in subw.items()}))
            ws, ss = [("x",), ("y",), ("x", "y"), ("Y", "x")], None
        else:
            ds = guard(v, "star/" + name, lambda: makers[name](star))
            dp = guard(v, "star/" + name + ":reference", lambda: makers[name](plain))
            ws = words
        if ds is None or dp is None:
            continue
        ss = ["*".join(w) for w in ws]
        got = guard(v, "star/%s:elements" % name, lambda: ds.elements(ss))
        if got is None:
            continue
        t += 2 * len(ws)
        got = mat(got)
        want = np.stack([mat(dp[list(w)]) for w in ws])
        if got.shape != want.shape or not np.max(np.abs(got - want)) <= TOL * (1 + np.max(np.abs(want))):
            bad = [ss[i] for i in range(len(ws))
                   if got.shape != want.shape or not np.max(np.abs(got[i] - want[i])) <= TOL * (1 + np.max(np.abs(want[i])))]
            v.append({"key": "star/derived/%s" % name,
                      "msg": "%s of a Representation(parse_simple=False) with generators %r: elements(%r) is not the %s of the original image"
                             % (name, letters, bad[:2], name)})
    return {"v": v, "t": t, "o": "%s|%d|%d|%s" % (case["names"], n, len(letters), ",".join(sorted(x["key"] for x in v))), "nt": True}


def star_cases(q):
    for names in ("long", "overlap-ab"):
        low = [g for g in NAMES[names] if g.lower() == g]
        for n in ((1, 2, 3) if q else (1, 2, 3, 4)):
            for ks in itertools.permutations(range(NMAT), len(low)):
                if q and sum(ks) % 3:
                    continue
                # every generator assigned, in name order and in reversed order (inverse-first for the last one)
                yield {"dim": n, "names": names, "assign": [[g, k] for g, k in zip(low, ks)]}
                yield {"dim": n, "names": names, "assign": [[g, k] for g, k in zip(low[::-1], ks)][:-1] + [[R.inv_name(low[0]), ks[-1]]]}


def case_overlap(hist):
    from geometry_tools import projective
    from geometry_tools.representation import Representation

    rep, model, cfg, mats, assigned, snaps, ntouch = build(hist)
    v = []
    n, L = cfg["dim"], cfg["L"]
    key = repr(sorted(cfg.items())) + "|" + model.key() + "|" + str(np.dtype(rep.dtype))
    ops = state_ops(cfg, hist)
    if not model.gens:
        return {"v": v, "key": key, "ops": ops, "t": 1, "o": "empty", "nt": False}
    ncalls = len(hist)
    letters = model.letters()
    if list(rep.generators.keys()) != letters:
        v.append({"key": "overlap/table/names", "msg": "generator names %r, model %r" % (list(rep.generators), letters)})
        return {"v": v, "key": key, "ops": [], "t": ncalls, "o": "table", "nt": True}
    gen_exact = {}
    for g in letters:
        lg, og = np.asarray(rep.generators[g]), model.gens[g]
        gen_exact[g] = bool(lg.shape == og.shape and np.array_equal(lg, og) and R._is_integral(og))
    compare(v, "overlap/table/generator-matrix", [(g,) for g in letters], stack([rep.generators[g] for g in letters], n),
            stack([model.gens[g] for g in letters], n), what="stored generator (inverse under the case-swapped name)")
    gmax = {g: max(1.0, float(np.abs(M).max())) for g, M in model.gens.items()}

    def crude(ws):
        return np.array([n ** len(u) * float(np.prod([gmax[x] for x in u])) if u else 0.0 for u in ws])

    # ---- words BY NAME: lists and '*'-strings
    words = list(R.all_words(letters, L))
    tab = model.table(L, letters)
    T = stack([tab[w] for w in words], n)
    exact = np.array([all(gen_exact[x] for x in w) for w in words])
    vals = guard(v, "overlap:evaluate-lists", lambda: [as_matrix(rep[list(w)]) for w in words])
    if vals is None:
        return {"v": v, "key": key, "ops": [], "t": ncalls, "o": "exc", "nt": True}
    ncalls += len(words)
    V = stack(vals, n)
    compare(v, "overlap/list-word-value", words, V, T, exact, "rep[[names]] vs the product of the named generators", cond=crude(words))
    star = guard(v, "overlap:element-star", lambda: [rep.element("*".join(w), parse_simple=False) for w in words[1:]])
    if star is not None:
        ncalls += len(star)
        if not np.array_equal(stack(star, n), V[1:]):
            v.append({"key": "overlap/star-strings", "msg": "element('x*y', parse_simple=False) differs from rep[['x','y']]"})
    el = guard(v, "overlap:elements-lists", lambda: np.asarray(rep.elements([list(w) for w in words])))
    if el is not None and not (el.shape == V.shape and np.array_equal(el, V)):
        v.append({"key": "overlap/elements/list-words", "msg": "elements(list words) differs from the stack of rep[list word]"})

    # ---- words LETTER BY LETTER: plain strings over the assigned one-character generators
    singles = [g for g in letters if len(g) == 1]
    long_names = [g for g in letters if len(g) > 1]
    strings, sv = [], set()
    # (the concatenated names of every list word of length <= 2 are among them)
    cand = ["".join(w) for w in R.all_words(singles, cfg.get("Ls", L + 1))]
    for x in cand:
        if x not in sv and all(c in singles for c in x):
            sv.add(x)
            strings.append(x)
    sw = [tuple(x) for x in strings]
    S = stack([model.value(w) for w in sw], n)
    sexact = np.array([all(gen_exact[c] for c in w) for w in sw])
    shadow = [i for i, x in enumerate(strings) if x in long_names]     # strings that are also the name of a generator
    got = guard(v, "overlap:evaluate-strings", lambda: [as_matrix(rep[x]) for x in strings])
    if got is not None:
        ncalls += len(strings)
        G = stack(got, n)
        if shadow:
            ok = compare(v, "overlap/string-word-value/string-equals-generator-name", [sw[i] for i in shadow], G[shadow], S[shadow], sexact[shadow],
                         "rep['xy'] (a string is read letter by letter) vs rho(x) rho(y)", cond=crude([sw[i] for i in shadow]))
        compare(v, "overlap/string-word-value", sw, G, S, sexact, "rep[string] vs the product of its letters", cond=crude(sw))
        # a string and the list of its letters are the same word
        asl = guard(v, "overlap:evaluate-letter-lists", lambda: [as_matrix(rep[list(x)]) for x in strings])
        if asl is not None and not np.array_equal(stack(asl, n), G):
            v.append({"key": "overlap/string-vs-letter-list", "msg": "rep['xy'] differs from rep[['x','y']]"})
        el = guard(v, "overlap:elements-strings", lambda: np.asarray(rep.elements(strings)))
        if el is not None and not (el.shape == G.shape and np.array_equal(el, G)):
            bad = [strings[i] for i in range(len(strings)) if el.shape == G.shape and not np.array_equal(el[i], G[i])]
            v.append({"key": "overlap/elements/string-words", "msg": "elements(strings) differs from the stack of rep[string] (first: %r)" % (bad[:3],)})
        # split law on strings: rep[uv] = rep[u] rep[v] for every split of every string (library's own values)
        idx = {x: i for i, x in enumerate(strings)}
        ws_, lhs, rhs, sc = [], [], [], []
        for x in strings:
            for k in range(1, len(x)):
                if x[:k] in idx and x[k:] in idx:
                    ws_.append(tuple(x))
                    lhs.append(G[idx[x]])
                    rhs.append(G[idx[x[:k]]] @ G[idx[x[k:]]])
        if ws_:
            compare(v, "overlap/split-law/strings", ws_, stack(lhs, n), stack(rhs, n), None, "rep[uv] vs rep[u] rep[v]", cond=crude(ws_))

    # ---- derived representations keep the two readings apart
    C = mats[1]
    Ci = R.inverse(C)
    short_s = [x for x in strings if len(x) <= 2]
    short_l = [w for w in words if len(w) <= 2]
    Ss = stack([model.value(tuple(x)) for x in short_s], n)
    Tl = stack([tab[w] for w in short_l], n)
    Tl_inv = stack([tab[R.formal_inverse(w)] for w in short_l], n)
    Ss_inv = stack([model.value(R.formal_inverse(tuple(x))) for x in short_s], n)
    for name, make, fs, fl in (
            ("copy", lambda: Representation(rep), Ss, Tl),
            ("conjugate", lambda: rep.conjugate(C.copy()), Ci @ Ss @ C, Ci @ Tl @ C),
            ("dual", lambda: rep.dual(), Ss_inv.swapaxes(-1, -2), Tl_inv.swapaxes(-1, -2)),
            ("astype-complex", lambda: rep.astype("complex128"), Ss.astype("complex128"), Tl.astype("complex128")),
            ("ProjectiveRepresentation", lambda: projective.ProjectiveRepresentation(rep), Ss, Tl)):
        d = guard(v, "overlap:" + name, make)
        if d is None:
            continue
        gs = guard(v, "overlap:%s:strings" % name, lambda: [as_matrix(d[x]) for x in short_s])
        gl = guard(v, "overlap:%s:lists" % name, lambda: [as_matrix(d[list(w)]) for w in short_l])
        ncalls += len(short_s) + len(short_l) + 1
        if gs is not None and short_s:
            compare(v, "overlap/derived/%s/string-words" % name, [tuple(x) for x in short_s], stack(gs, n), fs, None,
                    "%s[string] vs functor(product of the letters)" % name, cond=crude([tuple(x) for x in short_s]))
        if gl is not None:
            compare(v, "overlap/derived/%s/list-words" % name, short_l, stack(gl, n), fl, None,
                    "%s[[names]] vs functor(product of the named generators)" % name, cond=crude(short_l))
    o = "%s|%s|%s|%d|%s" % (dtype_class(rep, assigned.values()), str(T.dtype), ",".join(letters), len(shadow),
                            ",".join(sorted({x["key"].split("/")[1] for x in v})))
    return {"v": v, "key": key, "ops": ops if not v else [], "t": ncalls, "o": o, "nt": True}


# ------------------------------------------------------------------------------------------
# change of dtype to an INTEGER dtype: meaningful for integer-valued representations only, i.e. generators in GL(n, Z).
# The library stores the inverse letter as a floating-point inverse (entries integers up to rounding error): the integer
# representation must hold the integers they stand for.
# ------------------------------------------------------------------------------------------
def elementary(n):
    """the 2 n (n-1) elementary matrices I +- E_ij of SL(n, Z), as (i, j, sign)"""
    return [[i, j, sg] for i in range(n) for j in range(n) if i != j for sg in (1, -1)]


def case_astype_int(case):
    from geometry_tools.representation import Representation
    n, prefix = case["n"], case["prefix"]
    I = np.identity(n, dtype="int64")
    P = I.copy()
    for (i, j, sg) in prefix:
        P = P @ (I + _E(n, i, j, sg))
    v, t, seen = [], 0, []
    for (i, j, sg) in elementary(n):
        M = P @ (I + _E(n, i, j, sg))
        if case["flip"]:
            M[:, 0] = -M[:, 0]                    # determinant -1
        Mi = R.inverse(M)
        assert Mi.dtype.kind == "i" and np.array_equal(M @ Mi, I), "harness: not unimodular"
        seen.append(int(np.abs(M).max()))
        for first, tag in (("a", "assigned"), ("A", "assigned-through-inverse-letter")):
            rep = Representation()
            rep[first] = M.copy()
            want = {"a": M, "A": Mi} if first == "a" else {"a": Mi, "A": M}
            ir = guard(v, "astype-int64/" + tag, lambda: rep.astype("int64"))
            if ir is None:
                continue
            t += 5
            for w, exp in (("a", want["a"]), ("A", want["A"]), ("aA", I), ("Aa", I), ("aaA", want["a"])):
                got = np.asarray(ir[w])
                if not (got.shape == exp.shape and got.dtype.kind in "iu" and np.array_equal(got, exp)):
                    v.append({"key": "derived/astype-int64/integer-unimodular/" + tag,
                              "msg": "rep[%r] = %r; rep.astype('int64')[%r] = %r (dtype %s), expected %r"
                                     % (first, M.tolist(), w, got.tolist(), got.dtype, exp.tolist())})
                    break
    return {"v": v[:3], "t": t, "o": "%d|%d|%s|%d" % (n, len(prefix), case["flip"], max(seen)), "nt": True}


def astype_int_cases(q):
    for n, L in ((2, 4 if q else 6), (3, 2 if q else 3), (4, 1 if q else 2)):
        for k in range(L + 1):
            for prefix in itertools.product(elementary(n), repeat=k):
                for flip in (False, True):
                    yield {"n": n, "prefix": [list(e) for e in prefix], "flip": flip}


# ------------------------------------------------------------------------------------------
# word utilities on all words
# ------------------------------------------------------------------------------------------
def case_words(case):
    from geometry_tools.utils import words as W
    letters, L, simple = case["letters"], case["L"], case["simple"]
    v, t = [], 0
    allw = list(R.all_words(letters, L))
    for w in allw:
        if len(w) != case["len"]:
            continue
        arg = "".join(w) if simple else list(w)
        t += 3
        if simple:
            got = W.simplify_word(arg)
            if got != "".join(R.free_reduce(w)):
                v.append({"key": "words/simplify_word", "msg": "simplify_word(%r) = %r" % (arg, got)})
        got = W.simplify_word(arg, as_string=False)
        if tuple(got) != R.free_reduce(w):
            v.append({"key": "words/simplify_word(list)", "msg": "simplify_word(%r, as_string=False) = %r" % (arg, got)})
        if simple:
            got = W.formal_inverse(arg)
            if got != "".join(R.formal_inverse(w)):
                v.append({"key": "words/formal_inverse", "msg": "formal_inverse(%r) = %r" % (arg, got)})
        got = W.formal_inverse(arg, simple=False)
        if got != "*".join(R.formal_inverse(w)):
            v.append({"key": "words/formal_inverse(star)", "msg": "formal_inverse(%r, simple=False) = %r" % (arg, got)})
        if simple:
            for u in allw:
                if len(u) > case["L2"]:
                    break
                got = W.commutator(arg, "".join(u))
                exp = "".join(R.free_reduce(w + u + R.formal_inverse(w) + R.formal_inverse(u)))
                t += 1
                if got != exp:
                    v.append({"key": "words/commutator", "msg": "commutator(%r, %r) = %r, expected %r" % (arg, "".join(u), got, exp)})
            # Fox derivative as an element of the group ring
            for g in [x for x in letters if x == x.lower()]:
                if len(w) == 0:
                    continue
                got = {k: c for k, c in W.fox_word_derivative(g, arg).items() if c != 0}
                exp = {"".join(k): c for k, c in R.fox(g, w).items()}
                t += 1
                if got != exp:
                    v.append({"key": "words/fox_word_derivative", "msg": "d(%r)/d%s = %r, expected %r" % (arg, g, got, exp)})
    return {"v": v[:5], "t": t, "o": "%d|%s|%d" % (case["len"], simple, len(v)), "nt": case["len"] > 0}


# ------------------------------------------------------------------------------------------
# representations with satisfied relations
# ------------------------------------------------------------------------------------------
def _perm(p):
    n = len(p)
    M = np.zeros((n, n), dtype="int64")
    for i, j in enumerate(p):
        M[j, i] = 1
    return M


def relation_family(name, n):
    """(generator dict name -> matrix, relations satisfied) built without the library."""
    mats = gl_alphabet(n)
    if name == "commuting-powers":          # b is a polynomial in a
        a = mats[1]
        return {"a": a, "b": a @ a + 2 * np.identity(n, dtype="int64")}, ["abAB", "baBA", "aA", "abBA"]
    if name == "commuting-float":
        a = mats[3]
        return {"a": a, "b": 0.5 * a @ a - 0.25 * np.identity(n)}, ["abAB", "aabAAB"]
    if name == "commuting-complex":
        a = mats[5]
        return {"a": a, "b": a + 1j * np.identity(n)}, ["abAB", "bAaB"]
    if name == "commuting-diagonal":
        return {"a": np.diag(np.arange(2.0, 2.0 + n)), "b": np.diag(1.0 / np.arange(3.0, 3.0 + n))}, ["abAB"]
    if name == "cyclic":                    # a = n-cycle, b = anything
        a = _perm([(i + 1) % n for i in range(n)])
        return {"a": a, "b": mats[2]}, ["a" * n, "A" * n, "bB"]
    if name == "symmetric-group":           # Coxeter presentation of S_n on permutation matrices
        if n < 3:
            return None
        s = _perm([1, 0] + list(range(2, n)))
        t = _perm([0, 2, 1] + list(range(3, n)))
        return {"a": s, "b": t}, ["aa", "bb", "ababab", "abaBAB"]
    if name == "dihedral-rotation":         # rotation by 2 pi / 5 and a reflection, floating point
        if n != 2:
            return None
        c, s = np.cos(2 * np.pi / 5), np.sin(2 * np.pi / 5)
        return {"a": np.array([[c, -s], [s, c]]), "b": np.array([[1.0, 0], [0, -1.0]])}, ["aaaaa", "bb", "abab"]
    if name == "heisenberg":                # [a,b] = c central
        if n != 3:
            return None
        I = np.identity(3, dtype="int64")
        return ({"a": I + _E(3, 0, 1), "b": I + _E(3, 1, 2), "c": I + _E(3, 0, 2)},
                ["abABC", "acAC", "bcBC"])
    raise ValueError(name)


FAMILIES = ["commuting-powers", "commuting-float", "commuting-complex", "commuting-diagonal", "cyclic",
            "symmetric-group", "dihedral-rotation", "heisenberg"]


def _cocycle_checks(v, rep, model, rels, where, exact):
    n = model.dim
    lows = model.lower_names()
    coc = guard(v, where + ":cocycle_matrix", lambda: np.asarray(rep.cocycle_matrix()))
    cob = guard(v, where + ":coboundary_matrix", lambda: np.asarray(rep.coboundary_matrix()))
    if coc is None or cob is None:
        return 2
    if coc.dtype == object:
        coc = coc.astype("complex128")
    exp_cob = np.concatenate([R.identity(n) - model.gens[g] for g in lows], axis=0)
    exp_coc = np.concatenate([np.concatenate([R.ring_value(model, R.fox(g, tuple(r))) for g in lows], axis=1)
                              for r in rels], axis=0)
    k = "relations/%s" % where
    okc = compare(v, k + "/coboundary_matrix", [("",)], cob[None], exp_cob[None], [exact], "coboundary matrix vs stacked I - rho(g)")
    okd = compare(v, k + "/cocycle_matrix", [("",)], coc[None], exp_coc[None], [exact], "cocycle matrix vs Fox derivatives of the relations")
    if coc.shape[-1] == cob.shape[0]:
        prod = coc @ cob
        scale = 1 + max(np.abs(coc).max(), 1) * max(np.abs(cob).max(), 1)
        bad = (np.abs(prod).max() != 0) if exact else not (np.abs(prod).max() <= TOL * scale * 10)
        if bad:
            v.append({"key": k + "/cocycle-times-coboundary",
                      "msg": "cocycle_matrix @ coboundary_matrix has max |entry| %.3g (relations %r satisfied to %.3g)" % (
                          np.abs(prod).max(), rels, max(np.abs(model.value(tuple(r)) - np.identity(n)).max() for r in rels))})
    else:
        v.append({"key": k + "/shapes", "msg": "cocycle %r and coboundary %r shapes do not compose" % (coc.shape, cob.shape)})
    return 2


def case_relations(case):
    from geometry_tools.representation import Representation
    fam = relation_family(case["family"], case["dim"])
    v = []
    if fam is None:
        return {"v": v, "t": 0, "o": "n/a", "nt": False}
    gens, rels = fam
    rels = rels[:case["nrel"]]
    order = list(gens) if not case["reverse"] else list(gens)[::-1]
    rep = Representation(relations=list(rels))
    model = R.RepModel()
    for g in order:
        rep[g] = gens[g].copy()
        model.assign(g, gens[g].copy())
    n = model.dim
    # harness self-check: the relations really hold in the oracle
    resid = max(np.abs(model.value(tuple(r)) - np.identity(n)).max() for r in rels)
    if not resid <= 1e-9:
        raise AssertionError("harness: relation family %r does not satisfy its relations (%.3g)" % (case["family"], resid))
    exact = model.integral() and all(np.array_equal(np.asarray(rep.generators[g]), model.gens[g]) for g in model.gens)
    if list(rep.relations) != list(rels):
        v.append({"key": "relations/stored", "msg": "relations %r stored as %r" % (rels, rep.relations)})
    t = _cocycle_checks(v, rep, model, rels, "original", exact)
    # derived representations inherit the relations and satisfy them
    C = gl_alphabet(n)[1]
    cm = R.RepModel(dim=n)
    Ci = R.inverse(C)
    for g, M in model.gens.items():
        cm.gens[g] = Ci @ M @ C
    conj = guard(v, "conjugate", lambda: rep.conjugate(C.copy()))
    if conj is not None:
        if list(conj.relations) != list(rels):
            v.append({"key": "relations/inherited/conjugate", "msg": "conjugate has relations %r" % (conj.relations,)})
        else:
            t += _cocycle_checks(v, conj, cm, rels, "conjugate", False)
    dm = R.RepModel(dim=n)
    for g, M in model.gens.items():
        dm.gens[g] = model.gens[R.inv_name(g)].T
    du = guard(v, "dual", lambda: rep.dual())
    if du is not None:
        if list(du.relations) != list(rels):
            v.append({"key": "relations/inherited/dual", "msg": "dual has relations %r" % (du.relations,)})
        else:
            t += _cocycle_checks(v, du, dm, rels, "dual", False)
    cp = guard(v, "copy", lambda: Representation(rep))
    if cp is not None and list(cp.relations) != list(rels):
        v.append({"key": "relations/inherited/copy", "msg": "copy has relations %r" % (cp.relations,)})
    return {"v": v, "t": t, "o": "%s|%d|%s|%d" % (case["family"], n, exact, len(v)), "nt": True}


def case_surface(case):
    """The library's own example: genus-2 surface group, relation adCbADcB."""
    from geometry_tools.examples import reps
    v = []
    rep = reps.surface_rep_I()
    model = R.RepModel()
    for g in rep.generators:
        if g == g.lower():
            model.assign(g, np.asarray(rep.generators[g]))
    # put the model's table in the library's order
    model.gens = {g: model.gens[g] for g in rep.generators}
    rels = list(rep.relations)
    n = model.dim
    resid = max(np.abs(model.value(tuple(r)) - np.identity(n)).max() for r in rels)
    if rels != ["adCbADcB"]:
        v.append({"key": "relations/surface/stored", "msg": "relations %r" % (rels,)})
    if not resid <= 1e-9 * (1 + max(np.abs(M).max() for M in model.gens.values()) ** 4):
        v.append({"key": "relations/surface/relation-holds", "msg": "rho(adCbADcB) - I = %.3g" % resid})
        return {"v": v, "t": 1, "o": "surface-bad", "nt": True}
    t = _cocycle_checks(v, rep, model, rels, "surface_rep_I", False)
    if case.get("conjugate"):
        C = gl_alphabet(2)[3]
        cm = R.RepModel(dim=n)
        Ci = R.inverse(C)
        for g, M in model.gens.items():
            cm.gens[g] = Ci @ M @ C
        conj = guard(v, "conjugate", lambda: rep.conjugate(C.copy()))
        if conj is not None:
            t += _cocycle_checks(v, conj, cm, rels, "surface_rep_I-conjugate", False)
    return {"v": v, "t": t, "o": "surface|%d" % len(v), "nt": True}


# ------------------------------------------------------------------------------------------
def _selftest_alphabets():
    for n in range(1, 6):
        for k, M in enumerate(gl_alphabet(n)):
            d = abs(complex(R.det(M)))
            c = np.linalg.cond(M.astype(complex))
            assert d > 0.2 and c < 60, ("gl alphabet", n, k, d, c)
    for n in (3, 4):
        J = np.diag([-1.0] + [1.0] * (n - 1))
        for k, M in enumerate(lorentz_alphabet(n)):
            assert np.abs(M.T @ J @ M - J).max() < 1e-12, ("lorentz alphabet", n, k)


def run(ctx):
    q = ctx.quick
    only = getattr(ctx, "only", None)

    def want(name):
        return not only or any(name.startswith(p) for p in only)
    _selftest_alphabets()
    ctx.rule = ("histories of generator assignments rep[g] = M (g in 4 names, M in a 6-matrix alphabet per dimension) "
                "explored breadth-first on real Representation objects vs a dict model, de-duplicated on the ordered "
                "generator table and the representation dtype; in every state all words of length <= L over the assigned "
                "letters and inverses are evaluated on the representation and on every derived representation; "
                "section histories-reads adds the op 'eval' (read words, elements(), derived representations) between "
                "assignments on the same object, states that differ in where they were read are kept apart; "
                "a state is non-trivial when it has at least one generator")
    ctx.assume("generator matrices are invertible (alphabets: |det| >= 0.2, condition number < 60)")
    ctx.assume("a generator is the matrix that was assigned, as it was at the moment of the assignment: what the caller does afterwards "
               "with ITS OWN array (in-place scaling, overwriting) changes neither the representation nor its copies, and in-place changes "
               "of the matrices of Representation(rep) do not reach rep (the library copies caller data elsewhere, e.g. "
               "CoxeterGroup(matrix=...)); arrays read back from rep.generators of the representation under test are never written to")
    ctx.assume("multi-character names are evaluated through lists and through '*'-strings with element(w, parse_simple=False); "
               "the empty word is given as '' / [] (the '*'-string form of the empty word is not defined)")
    ctx.assume("compose(sl2_irrep), compose(sl2_to_so21) only in states without an integer-dtype generator matrix "
               "(lie.sl2_irrep accumulates in the input dtype)")
    ctx.assume("astype(float64) only for real representations; HyperbolicRepresentation only on the O(n,1) alphabet; astype(int64) only "
               "for integer-valued representations: every assigned generator an integer-dtype matrix of determinant +-1 (so that the "
               "inverse letters are integer matrices too)")
    ctx.assume("class contract of representations derived from a ProjectiveRepresentation / HyperbolicRepresentation (values Transformation / Isometry), as "
               "the unchanged library builds them: %r, where 'same' = class and value type of the source (built through self.__class__: copy, "
               "conjugate, dual, astype, subgroup), 'projective' = ProjectiveRepresentation with Transformation values (compose, gln_adjoint; "
               "HyperbolicRepresentation overrides both), 'wrapped' = some ProjectiveRepresentation with Transformation values (sln_adjoint), "
               "'plain' = Representation with ndarray values (tensor_product, symmetric_square construct Representation()); evaluated on all words "
               "of length <= 2, values compared with the same functors as for the plain representation" % (CLASS_CONTRACT,))
    ctx.assume("overlapping names (generators a, b and a generator named 'ab' / 'aa'): a plain string word is read letter by letter "
               "(Representation.parse_word with parse_simple, the default of [] / element / elements), so it is in the domain only when "
               "every one of its characters is an assigned one-character generator; the multi-character generator is addressed by a "
               "list or a '*'-string")
    ctx.assume("subgroup(compute_inverse=False) only for one-character generator names (formal_inverse operates on strings); the Fox "
               "differential of a word in multi-character generator names is requested with the word given as a list of names")
    ctx.assume("cocycle_matrix @ coboundary_matrix = 0 only for representations whose relations hold in the oracle (residual <= 1e-9)")
    ctx.tolerances["word values / derived representations"] = (
        "|got-exp| <= 1e-9 (1 + max|exp| + k max_{w=uv} |F(u)| |F(v)|) per k x k matrix (forward error bound of a matrix "
        "product with machine epsilon replaced by 1e-9, so that cancelling words like aaaAAA are judged against the size of "
        "their intermediate products); exact (==) for words all of whose letters are stored exactly and are integer / "
        "Gaussian-integer matrices (products of integers < 2^53 are exact in float64)")
    ctx.tolerances["cocycle @ coboundary"] = "1e-8 (1 + max|cocycle| max|coboundary|); exact zero on integer representations"

    def root(alpha, dim, names, L, mats, **kw):
        cfg = {"alpha": alpha, "dim": dim, "names": names, "L": L, "Lsub": 2 if L <= 4 else 3, "mats": list(mats),
               "irreps": [3], "rich": False}
        cfg.update(kw)
        return [["init", cfg]]
    ALL = list(range(NMAT))
    alpha_doc = ("per dimension 6 matrices: 0 int64 unipotent, 1 int64 unimodular det -1, 2 float64 dyadic, 3 float64 generic, "
                 "4 complex128 Gaussian unimodular, 5 complex128 generic; O(2,1)/O(3,1) alphabet: 0 boost, 1 rotation, "
                 "2 int64 reflection, 3 int64 integral Lorentz matrix, 4 time-reversing boost, 5 int64 spatial permutation")
    nw = lambda L: sum(4 ** k for k in range(L + 1))
    if want("histories"):
        # depth 2: every (name, matrix) pair twice: assign, re-assign, inverse-first, two generators
        roots = []
        dims = [1, 2, 3] if q else [1, 2, 3, 4, 5]
        for n in dims:
            roots.append(root("gl", n, "simple", 4, [0, 2, 3, 5] if (q and n == 1) else ALL,
                              irreps=[3] if q else [2, 3, 4, 5], rich=not q))
            roots.append(root("gl", n, "long", 4, [0, 3, 5] if q else ALL))
        roots.append(root("lorentz", 3, "simple", 4, [0, 1, 2, 3] if q else ALL, rich=not q))
        roots.append(root("lorentz", 4, "simple", 4, [0, 1, 3] if q else ALL))
        dom = {"dimensions": dims, "names": NAMES, "matrix alphabet": alpha_doc,
               "word length": 4, "words per 2-generator state": nw(4), "roots": len(roots),
               "ops per state": "4 names x the root's matrix subset (24 for the full alphabet)"}
        ctx.bfs("histories", "checks.c05:case_state", roots, depth=2, domains=dom, chunk=8)
    if want("star-representations"):
        sc = list(star_cases(q))
        ctx.product("star-representations", "checks.c05:case_star", sc, chunk=8,
                    domains={"names": {k: NAMES[k] for k in ("long", "overlap-ab")}, "dimensions": [1, 2, 3] if q else [1, 2, 3, 4],
                             "assignments": "every injective choice of matrices for the generators (quick: a third of them), in name order and reversed with one inverse-first",
                             "derived": STAR_DERIVED, "words": "all '*'-strings of length 1..2 over the names and inverses, through elements()",
                             "oracle": "the same derived representation of an equal Representation() evaluated on LIST words (decided by section histories)"})
    if want("astype-integer"):
        ac = list(astype_int_cases(q))
        ctx.product("astype-integer", "checks.c05:case_astype_int", ac, chunk=16,
                    domains={"matrices": "every product of at most L + 1 elementary matrices I +- E_ij of SL(n, Z) (the last factor runs inside the case), "
                                         "and the same with the first column negated (determinant -1); (n, L) = %s" % ("(2,4), (3,2), (4,1)" if q else "(2,6), (3,3), (4,2)"),
                             "assignment": ["rep['a'] = M", "rep['A'] = M (the generator a is the floating-point inverse)"],
                             "demand": "rep.astype('int64')[w] for w in a, A, aA, Aa, aaA is the exact integer matrix (oracle: adjugate inverse in rational arithmetic)",
                             "cases": len(ac)})
    if want("overlapping-names"):
        roots = []
        for names in ("overlap-ab", "overlap-aa"):
            for n, ms in ((1, [0, 5]), (2, [0, 3]), (3, [1, 5])) if q else ((1, [0, 5]), (2, [0, 2, 3]), (3, [1, 3, 5]), (4, [1, 4])):
                if names == "overlap-aa" and (n != 2 if q else n in (1, 4)):
                    continue
                roots.append(root("gl", n, names, 3, ms))
        ctx.bfs("overlapping-names", "checks.c05:case_overlap", roots, depth=3,
                domains={"names": {k: NAMES[k] for k in ("overlap-ab", "overlap-aa")},
                         "ops": "['set', g, k]: rep[g] = M for every one of the six names (inverse-first included) and the root's matrix subset",
                         "depth": "3 assignments (so that a, b and the long name are all assigned, in every order, with re-assignments)",
                         "list words / '*'-strings": "all words of length <= 3 over the assigned names and inverses: product by NAME",
                         "string words": "all strings of length <= 4 over the assigned one-character letters (this includes the concatenated names "
                                         "of every list word of length <= 2): product LETTER BY LETTER, also when the string is the name of a generator",
                         "also": "elements() = [] in both forms, string = list of its letters, split law on strings, copy / conjugate / dual / "
                                 "astype / ProjectiveRepresentation in both forms (words of length <= 2)",
                         "roots": len(roots)}, chunk=8)
    if want("histories-depth3") and not q:
        roots = []
        for n in [1, 2, 3]:
            roots.append(root("gl", n, "simple", 4, [0, 2, 3, 5]))
            roots.append(root("gl", n, "long", 3, [0, 3, 5]))
        roots.append(root("lorentz", 3, "simple", 3, [0, 1, 3]))
        ctx.bfs("histories-depth3", "checks.c05:case_state", roots, depth=3,
                domains={"dimensions": [1, 2, 3], "matrix subsets": "simple names {0,2,3,5}, long names {0,3,5}, O(2,1) {0,1,3}",
                         "word length": "4 (simple names), 3 (long names, O(2,1))", "roots": len(roots)}, chunk=16)
    if want("histories-reads"):
        # assignments with READS in between: set ... eval ... set on one object (what a memo of word
        # images, of inverses, of the dtype ... must survive)
        roots = []
        ms, me = (2, 1) if q else (3, 2)
        for n in ([1, 2, 3] if q else [1, 2, 3, 4]):
            roots.append(root("gl", n, "simple", 3, ALL if (q and n == 2) else [0, 3, 5] if q else [1, 5],
                              maxset=ms, maxeval=me, Le=3 if q else 2, Lfox=2))
        roots.append(root("gl", 2, "long", 3, [0, 5] if q else [2, 4], maxset=ms, maxeval=me, Le=3 if q else 2))
        roots.append(root("lorentz", 3, "simple", 3, [0, 1, 3] if q else [0, 3], maxset=ms, maxeval=me, Le=3 if q else 2, Lfox=2))
        if not q:
            for n in [2, 3]:
                roots.append(root("gl", n, "simple", 4, ALL, maxset=2, maxeval=1, Le=3, rich=True))
            roots.append(root("gl", 3, "long", 4, ALL, maxset=2, maxeval=1, Le=3))
            roots.append(root("lorentz", 4, "simple", 4, ALL, maxset=2, maxeval=1, Le=3))
        ctx.bfs("histories-reads", "checks.c05:case_state", roots, depth=ms + me,
                domains={"ops": "['set', g, k] as in `histories`; ['eval'] = rep[w] for all words of length <= Le over the "
                                "current letters and inverses, elements(words), conjugate / dual / copy built and evaluated "
                                "(words of length <= 2)",
                         "shape of a history": "at most %d assignments and %d eval ops, an eval op only directly after an "
                                               "assignment and before another one; histories without eval op are those of "
                                               "`histories`" % (ms, me),
                         "state key": "generator table, dtype AND the table at every eval op (position in the history "
                                      "included): histories that read at different moments are not merged",
                         "word length": "final state 3 (4 for the full-alphabet roots of the thorough tier); eval op and the "
                                        "state reached by it: Le = %d" % (3 if q else 2),
                         "matrix subsets": "quick: {0,3,5} (all six for n = 2), long names {0,5}, O(2,1) {0,1,3}; thorough "
                                           "depth 3+2: {1,5}, long {2,4}, O(2,1) {0,3}; depth 2+1: all six",
                         "roots": len(roots)}, chunk=8)
    if want("long-words") and not q:
        roots = []
        for n in [1, 2, 3]:
            roots.append(root("gl", n, "simple", 6, [1, 3, 5], Lfox=6))
        for n in [4, 5]:
            roots.append(root("gl", n, "simple", 5, [1, 3, 5], Lfox=5))
        roots.append(root("gl", 2, "long", 6, [0, 5], irreps=[4]))
        roots.append(root("lorentz", 3, "simple", 6, [0, 3]))
        ctx.bfs("long-words", "checks.c05:case_state", roots, depth=2,
                domains={"word length": "6 (dimension <= 3), 5 (dimensions 4, 5)", "words per 2-generator state": nw(6),
                         "matrix subsets": "{1,3,5}; long names {0,5}; O(2,1) {0,3}", "roots": len(roots)}, chunk=1)
    if want("words"):
        Lw = 6 if q else 8
        cases = []
        for k in range(Lw + 1):
            cases.append({"letters": ["a", "b", "A", "B"], "L": Lw, "len": k, "simple": True, "L2": 2})
        for k in range(5):
            cases.append({"letters": ["s0", "s1", "S0", "S1"], "L": 4, "len": k, "simple": False, "L2": 0})
        for k in range(5 if q else 6):
            cases.append({"letters": ["a", "b", "c", "A", "B", "C"], "L": 4 if q else 5, "len": k, "simple": True, "L2": 1})
        ctx.product("word-utilities", "checks.c05:case_words", cases,
                    domains={"words": "all words of each length <= %d over {a,b,A,B}; <= 4 over multi-character names; "
                                      "<= %d over three generators" % (Lw, 4 if q else 5),
                             "functions": "simplify_word, formal_inverse, commutator, fox_word_derivative"}, chunk=1)
    if want("relations"):
        cases = []
        for fam in FAMILIES:
            for n in ([1, 2, 3] if q else [1, 2, 3, 4, 5]):
                if relation_family(fam, n) is None:
                    continue
                nr = len(relation_family(fam, n)[1])
                for k in range(1, nr + 1):
                    for rev in (False, True):
                        cases.append({"family": fam, "dim": n, "nrel": k, "reverse": rev})
        ctx.product("relations", "checks.c05:case_relations", cases,
                    domains={"families": FAMILIES, "relation prefixes": "every prefix of the family's relation list",
                             "generator order": ["as listed", "reversed"]}, chunk=4)
        ctx.product("surface-example", "checks.c05:case_surface", [{"conjugate": False}, {"conjugate": True}],
                    domains={"representation": "geometry_tools.examples.reps.surface_rep_I"}, chunk=1)
