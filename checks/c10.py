"""C10 - automaton operations transform the accepted language as documented.

Engine P: every deterministic automaton of the stated sizes x every start vertex x every word
up to a bound, against the set model (mc/oracle/fsa_model.py): walks (accepts / follow_word /
initial_accepted_subword), enumerators, automaton_multiple / even_automaton, rename_generators,
recurrent (edges, vertices and start vertices), remove_long_paths, and "non-in-place operations leave the
receiver unchanged" (also when the caller re-roots the result in place: start-vertex lists are never shared).
Engine E: short histories mixing queries and those operations on real objects (a query that
writes into one of the automaton's dictionaries can change what a later operation returns).

Violation keys: <sub-check>/<call>/<how the queried object was built>, where the last part is
`dict-built` (constructor from a dictionary, rename_generators, kbmag files) or `edit-built`
(add_vertices/add_edges; this is how automaton_multiple and remove_long_paths build results).
"""
import copy
import itertools

from mc.oracle import fsa_model as O
from mc.oracle.fsa_model import M

TARGET = ["a", "b", "c"]
ROUTE_CLASS = {"graph": "dict-built", "hidden": "dict-built", "out": "dict-built",
               "edits": "edit-built", "builtin": "dict-built",
               "redirect1": "edit-built", "redirect2": "edit-built"}
REJ = "<rejected>"


# ------------------------------------------------------------------------------------------
# building real automata, reading them
# ------------------------------------------------------------------------------------------
def build(m, route, start):
    from geometry_tools.automata import fsa
    if route == "graph":
        return fsa.FSA(m.label_dict(), start_vertices=[start])
    if route == "hidden":
        # pure-target vertices are not listed as keys: the constructor must discover them
        d = {u: nb for u, nb in m.label_dict().items()
             if nb or not any(e[1] == u for e in m.E)}
        return fsa.FSA(d, start_vertices=[start])
    if route == "out":
        return fsa.FSA(m.out_dict(), start_vertices=[start], graph_dict=False)
    if route == "edits":
        f = fsa.FSA({})
        f.add_vertices(sorted(m.V, key=repr))
        f.add_edges(sorted(m.E, key=repr))
        f.start_vertices = [start]
        return f
    if route in ("redirect1", "redirect2"):
        # built by edits, with every edge first pointing somewhere else: add_edges is called with the edges
        # (u, v + j mod k, l), then with the edges (u, v, l) of the automaton - each label leaving u is re-used
        # towards a new head, which replaces the earlier edge (at most one edge per (vertex, label))
        j = int(route[-1])
        V = sorted(m.V, key=repr)
        f = fsa.FSA({})
        f.add_vertices(V)
        f.add_edges([(u, V[(V.index(v) + j) % len(V)], l) for (u, v, l) in sorted(m.E, key=repr)])
        f.add_edges(sorted(m.E, key=repr))
        f.start_vertices = [start]
        return f
    raise ValueError(route)


def raw_edges(f):
    gd, od, idd = f.graph_dict, f.out_dict, f.in_dict
    E_label = [(u, v, l) for u, nb in gd.items() for l, v in nb.items()]
    E_out = [(u, v, l) for u, nb in od.items() for v, ls in nb.items() for l in ls]
    E_in = [(u, v, l) for v, nb in idd.items() for u, ls in nb.items() for l in ls]
    return E_label, E_out, E_in


def snapshot(f):
    """Observable content of the three views (+ start vertices), read without triggering
    the default dictionaries."""
    El, Eo, Ei = raw_edges(f)
    return repr((sorted(f.graph_dict.keys(), key=repr), sorted(f.out_dict.keys(), key=repr),
                 sorted(El, key=repr), sorted(Eo, key=repr), sorted(Ei, key=repr),
                 list(f.start_vertices)))


def real_signature(f):
    """Full raw state incl. container kinds and phantom entries (history de-duplication)."""
    def norm(d):
        return sorted((repr(k), type(v).__name__, sorted((repr(k2), repr(v2)) for k2, v2 in v.items()))
                      for k, v in d.items())
    return repr((norm(f.graph_dict), norm(f.out_dict), norm(f.in_dict), list(f.start_vertices)))


def containers(f):
    """ids of every mutable container reachable from the three views (two levels + label lists)."""
    ids = set()
    for d in (f.graph_dict, f.out_dict, f.in_dict):
        ids.add(id(d))
        for x in d.values():
            ids.add(id(x))
            if isinstance(x, dict):
                ids.update(id(y) for y in x.values() if isinstance(y, (list, dict, set)))
    return ids


def same_edges(f, E, key, who, V=None):
    """The automaton f has exactly the labelled edges E (each once, in all three views) and,
    when V is given, exactly the vertices V."""
    out = []
    want = sorted(E, key=repr)
    for nm, got in zip(("label", "outgoing", "incoming"), raw_edges(f)):
        if sorted(got, key=repr) != want:
            out.append({"key": key, "msg": "%s: %s view has edges %r, expected %r"
                        % (who, nm, sorted(got, key=repr), want)})
            break
    if V is not None and not out:
        if set(f.vertices()) != set(V) or set(f.graph_dict.keys()) != set(V):
            out.append({"key": key, "msg": "%s: vertices %r, expected %r"
                        % (who, sorted(f.vertices(), key=repr), sorted(V, key=repr))})
    return out


def unchanged(f, snap, op, cls):
    if snapshot(f) != snap:
        return [{"key": "original-changed/%s/%s" % (op, cls),
                 "msg": "receiver changed by non-in-place %s: before %s after %s" % (op, snap, snapshot(f))}]
    return []


def reroot_in_place(g, new_root="other-root"):
    """The caller re-roots the automaton g through its public list attribute (start_vertices[0] = r, or
    append when it has none); returns the undo information."""
    sv = g.start_vertices
    saved = list(sv)
    if len(sv):
        sv[0] = new_root
    else:
        sv.append(new_root)
    return sv, saved


def reroot_leaves(g, f, snap, op, cls):
    """Re-rooting the RESULT g of a non-in-place operation in place leaves the start vertices of the receiver f as
    they were."""
    if g is None or g is f:
        return []
    before = list(f.start_vertices)
    sv, saved = reroot_in_place(g)
    try:
        if list(f.start_vertices) != before:
            return [{"key": "original-rerooted/%s/%s" % (op, cls),
                     "msg": "re-rooting the result of non-in-place %s in place (result.start_vertices[0] = ...) changed the "
                            "receiver's start vertices: %r -> %r" % (op, before, list(f.start_vertices))}]
    finally:
        sv[:] = saved
    return []


def join(w):
    return "".join(w)


def follow(f, word, **kw):
    from geometry_tools.automata import fsa
    try:
        return f.follow_word(word, **kw)
    except fsa.FSAException:
        return REJ


WORD_KINDS = {"str": join, "list": list, "tuple": tuple}
KIND_L = 4                                     # words longer than this are only put in their first spelling
TARGET_MC = ["s0", "s1", "s2"]                 # multi-character target names of a relabelling


def word_kinds(labels):
    """The ways of spelling a word over `labels`: a string only when every label is one character."""
    return ["str", "list", "tuple"] if all(len(l) == 1 for l in labels) else ["list", "tuple"]


def kind_class(kind, labels):
    return ("" if kind == "str" else "/word-as-" + kind) + ("" if all(len(l) == 1 for l in labels) else "/multi-character-labels")


def check_prefixes(f, word, w, n, cls, who):
    """initial_accepted_subword / initial_rejected_subword of `word` (the label sequence w in one of its spellings)
    whose longest accepted prefix from the default start vertex has n labels (oracle)."""
    p = f.initial_accepted_subword(word)
    if p != join(w[:n]):
        return [{"key": "walk/initial_accepted_subword/" + cls,
                 "msg": "%s: initial_accepted_subword(%r) = %r, oracle %r" % (who, word, p, join(w[:n]))}]
    r = f.initial_rejected_subword(word)
    if n < len(w):
        if r != join(w[:n + 1]):
            return [{"key": "walk/initial_rejected_subword/" + cls,
                     "msg": "%s: initial_rejected_subword(%r) = %r, the shortest rejected initial subword is %r (accepted prefix %r)"
                     % (who, word, r, join(w[:n + 1]), join(w[:n]))}]
    elif r is not None and r != join(w):
        return [{"key": "walk/initial_rejected_subword/accepted-word/" + cls,
                 "msg": "%s: initial_rejected_subword(%r) = %r for an accepted word (None or the word itself expected)" % (who, word, r)}]
    return []


def recurrent_by_cycles(m):
    """Second, structurally different oracle for the recurrent part: v survives iff some
    vertex on a cycle reaches v and v reaches some vertex on a cycle."""
    succ = {v: set() for v in m.V}
    for (u, v, l) in m.E:
        succ[u].add(v)

    def reach(v):           # vertices reachable by >= 1 step
        seen, todo = set(), list(succ[v])
        while todo:
            x = todo.pop()
            if x not in seen:
                seen.add(x)
                todo.extend(succ[x])
        return seen
    R = {v: reach(v) for v in m.V}
    cyc = {v for v in m.V if v in R[v]}
    keep = {v for v in m.V
            if (v in cyc or any(v in R[c] for c in cyc)) and (v in cyc or (R[v] & cyc))}
    return M(keep, {e for e in m.E if e[0] in keep and e[1] in keep})


# ------------------------------------------------------------------------------------------
# section 1: walks and enumerators
# ------------------------------------------------------------------------------------------
def check_walks(f, m, adj, s, s2, words, L, cls, stats, labels=("a",)):
    """All walk/enumeration queries on f (default start s; explicit start s2)."""
    v = []
    kinds = word_kinds(labels)
    lang = {}
    for st in {s, s2}:
        lang[st] = [sorted((join(w), e) for (w, e) in O.paths_adj(adj, n, st)) for n in range(L + 1)]
    # enumerators (exactly-once: compared as sorted lists against pairwise distinct words)
    for n in range(L + 1):
        exp = lang[s][n]
        got = list(f.enumerate_fixed_length_paths(n, with_states=True))
        stats["t"] += 1
        if sorted(got, key=repr) != exp:
            v.append({"key": "enumerate/fixed_length_paths(with_states)/" + cls,
                      "msg": "length %d from default start %r: %r, expected %r" % (n, s, got, exp)})
            return v
        got = list(f.enumerate_fixed_length_paths(n))
        if sorted(got) != [w for (w, e) in exp]:
            v.append({"key": "enumerate/fixed_length_paths/" + cls,
                      "msg": "length %d from default start %r: %r, expected %r" % (n, s, got, [w for (w, e) in exp])})
            return v
        got = list(f.enumerate_fixed_length_paths(n, start_vertex=s2, with_states=True))
        if sorted(got, key=repr) != lang[s2][n]:
            v.append({"key": "enumerate/fixed_length_paths(start_vertex)/" + cls,
                      "msg": "length %d from %r: %r, expected %r" % (n, s2, got, lang[s2][n])})
            return v
        stats["t"] += 2
    for n in sorted({0, 1, L}):
        exp = sorted(x for k in range(n + 1) for x in lang[s][k])
        got = list(f.enumerate_words(n, with_states=True))
        if sorted(got, key=repr) != exp:
            v.append({"key": "enumerate/words(with_states)/" + cls,
                      "msg": "up to %d from default start %r: %r, expected %r" % (n, s, got, exp)})
            return v
        got = list(f.enumerate_words(n))
        if sorted(got) != sorted(w for (w, e) in exp):
            v.append({"key": "enumerate/words/" + cls,
                      "msg": "up to %d from default start %r: %r" % (n, s, got)})
            return v
        exp2 = sorted(x for k in range(n + 1) for x in lang[s2][k])
        got = list(f.enumerate_words(n, start_vertex=s2, with_states=True))
        if sorted(got, key=repr) != exp2:
            v.append({"key": "enumerate/words(start_vertex)/" + cls,
                      "msg": "up to %d from %r: %r, expected %r" % (n, s2, got, exp2)})
            return v
        stats["t"] += 3
        stats["enum"] += len(exp)
    # walks: every word in every spelling (string / list / tuple of labels)
    for w in words:
        end = O.walk_adj(adj, w, s)
        end2 = O.walk_adj(adj, w, s2)
        if end is not None:
            stats["acc"] += 1
        npre = len(O.longest_accepted_prefix(m, w, s))
        for kind in (kinds if len(w) <= KIND_L else kinds[:1]):
            ws = WORD_KINDS[kind](w)
            kc = cls + kind_class(kind, labels)
            stats["t"] += 6
            a = f.accepts(ws)
            if a is not (end is not None):
                v.append({"key": "walk/accepts/" + kc,
                          "msg": "accepts(%r) from default start %r = %r, oracle end %r" % (ws, s, a, end)})
                return v
            a = f.accepts(ws, start_vertex=s2)
            if a is not (end2 is not None):
                v.append({"key": "walk/accepts(start_vertex)/" + kc,
                          "msg": "accepts(%r, start_vertex=%r) = %r, oracle end %r" % (ws, s2, a, end2)})
                return v
            r = follow(f, ws)
            if r != (REJ if end is None else end):
                v.append({"key": "walk/follow_word/" + kc,
                          "msg": "follow_word(%r) from default start %r = %r, oracle %r" % (ws, s, r, end)})
                return v
            r = follow(f, ws, start_vertex=s2)
            if r != (REJ if end2 is None else end2):
                v.append({"key": "walk/follow_word(start_vertex)/" + kc,
                          "msg": "follow_word(%r, start_vertex=%r) = %r, oracle %r" % (ws, s2, r, end2)})
                return v
            v += check_prefixes(f, ws, w, npre, kc, "default start %r" % (s,))
            if v:
                return v
    return v


def case_walk(case):
    m = M(range(case["k"]), case["E"])
    labels, L, route = case["labels"], case["L"], case["route"]
    cls = ROUTE_CLASS[route]
    adj = O.adjacency(m)
    words = list(O.all_words(labels, L))
    V = sorted(m.V)
    stats = {"t": 0, "acc": 0, "enum": 0}
    v = []
    for i, s in enumerate(V):
        f = build(m, route, s)
        s2 = V[(i + 1) % len(V)]
        v = check_walks(f, m, adj, s, s2, words, L, cls, stats, labels=labels)
        if v:
            break
    return {"v": v, "t": stats["t"], "o": "%d/%d" % (stats["acc"], stats["enum"]), "nt": len(m.E) > 0}


# ------------------------------------------------------------------------------------------
# section 2: operations
# ------------------------------------------------------------------------------------------
def check_multiple(f, m, s, labels, Lm, cls, snap, stats, ks=(1, 2, 3, 4, "even")):
    v = []
    adj = O.adjacency(m)
    for k in ks:
        kk = 2 if k == "even" else k
        nm = "even_automaton" if k == "even" else "automaton_multiple"
        g = f.even_automaton() if k == "even" else f.automaton_multiple(k)
        stats["t"] += 1
        v += unchanged(f, snap, nm, cls) or reroot_leaves(g, f, snap, nm, cls)
        if v:
            return v
        n = max(Lm // kk, 2 if kk <= 3 else 1)
        exp = sorted(join(w) for j in range(n + 1) for (w, e) in O.paths_adj(adj, kk * j, s))
        got = list(g.enumerate_words(n))
        stats["enum"] += len(exp)
        if sorted(got) != exp:
            v.append({"key": "multiple/%s/language-by-enumerate_words" % nm,
                      "msg": "k=%r start %r: words of <=%d labels %r, expected accepted words of length "
                             "k*j: %r" % (k, s, n, sorted(got, key=repr), exp)})
            return v
        nc = min(n, 2 if kk >= 3 else n)
        for w in O.all_words(labels, kk * nc):
            if len(w) % kk:
                continue
            chunks = [join(w[i:i + kk]) for i in range(0, len(w), kk)]
            a = g.accepts(chunks)
            stats["t"] += 1
            end = O.walk_adj(adj, w, s)
            if a is not (end is not None):
                v.append({"key": "multiple/%s/accepts-chunked-word" % nm,
                          "msg": "k=%r start %r: result.accepts(%r) = %r but the receiver %s %r"
                          % (k, s, chunks, a, "rejects" if end is None else "accepts", join(w))})
                return v
            # prefix queries on the k-step automaton: the word is the list / tuple of its k-letter labels
            nacc = 0
            while nacc < len(chunks) and O.walk_adj(adj, w[:kk * (nacc + 1)], s) is not None:
                nacc += 1
            for kind in ("list", "tuple"):
                found = check_prefixes(g, WORD_KINDS[kind](chunks), chunks, nacc,
                                       "%s-result/word-as-%s%s" % (nm, kind, "/multi-character-labels" if kk > 1 else ""),
                                       "k=%r start %r, word in %d-letter labels" % (k, s, kk))
                stats["t"] += 2
                for x in found:
                    x["key"] = x["key"].replace("walk/", "multiple/", 1)
                v += found
                if v:
                    return v
    return v


def injective_maps(labels, target):
    for img in itertools.permutations(target, len(labels)):
        yield dict(zip(labels, img))


def check_rename(f, m, route, s, labels, Lr, cls, snap, stats, target=TARGET):
    v = []
    V = sorted(m.V, key=repr)
    kinds = word_kinds(target)[:2]              # string + list, or list + tuple (every spelling: the walks sections)
    for pi in injective_maps(labels, target):
        mm = m.rename(pi)
        adj2 = O.adjacency(mm)
        g = f.rename_generators(dict(pi), inplace=False)
        stats["t"] += 1
        v += unchanged(f, snap, "rename_generators", cls) or reroot_leaves(g, f, snap, "rename_generators", cls)
        if g is None:
            v.append({"key": "rename/copy/returns-None", "msg": "rename_generators(%r, inplace=False) returned None" % (pi,)})
        if v:
            return v
        f2 = build(m, route, s)
        f2.rename_generators(dict(pi), inplace=True)
        f3 = build(m, route, s)
        f3.rename_generators(dict(pi))          # documented default: in place
        for who, h in (("copy", g), ("inplace", f2), ("default-inplace", f3)):
            v += same_edges(h, mm.E, "rename/%s/edges" % who, "rename_generators(%r) %s" % (pi, who))
            if v:
                return v
            if list(h.start_vertices) != [s]:
                v.append({"key": "rename/%s/start-vertices" % who,
                          "msg": "start vertices %r, expected %r" % (h.start_vertices, [s])})
                return v
            for st in (V if who == "copy" else [s]):
                exp = sorted((join(pi[l] for l in w), e) for (w, e) in O.language(m, Lr, st))
                got = list(h.enumerate_words(Lr, start_vertex=st, with_states=True))
                stats["enum"] += len(exp)
                if sorted(got, key=repr) != exp:
                    v.append({"key": "rename/%s/language-by-enumerate_words" % who,
                              "msg": "map %r from %r: %r, expected letterwise image %r" % (pi, st, got, exp)})
                    return v
            for w in O.all_words(target, min(Lr, 3) if who == "copy" else 2):
                for kind in kinds:
                    ws = WORD_KINDS[kind](w)
                    a = h.accepts(ws)
                    stats["t"] += 3
                    if a is not (O.walk_adj(adj2, w, s) is not None):
                        v.append({"key": "rename/%s/accepts%s" % (who, kind_class(kind, target)),
                                  "msg": "map %r: accepts(%r) from %r = %r" % (pi, ws, s, a)})
                        return v
                    found = check_prefixes(h, ws, w, len(O.longest_accepted_prefix(mm, w, s)), who + kind_class(kind, target),
                                           "relabelled by %r (%s), start %r" % (pi, who, s))
                    for x in found:
                        x["key"] = x["key"].replace("walk/", "rename/", 1)
                    v += found
                    if v:
                        return v
        # and back again, in place
        inv = {b: a for a, b in pi.items()}
        f2.rename_generators(inv, inplace=True)
        v += same_edges(f2, m.E, "rename/inplace/round-trip", "rename %r then %r" % (pi, inv))
        if v:
            return v
    return v


def recurrent_start(h, mr, s, who, labels):
    """Start vertices of a recurrent version h (model mr) of an automaton with the single start vertex s: a
    sub-automaton's start vertices are vertices of it.  s survives: it is still the start vertex.  s was pruned:
    no listed start vertex is a deleted vertex, and no word is accepted from the default start."""
    sv = list(h.start_vertices)
    if s in mr.V:
        if sv != [s]:
            return [{"key": "recurrent/%s/start-vertices/surviving-start" % who,
                     "msg": "start vertex %r is in the recurrent part %r but the result has start_vertices %r" % (s, sorted(mr.V, key=repr), sv)}]
        return []
    gone = [x for x in sv if x not in set(h.vertices())]
    if gone:
        return [{"key": "recurrent/%s/start-vertices/pruned-start" % who,
                 "msg": "start vertex %r was pruned (recurrent part %r) but the result still lists start_vertices %r: not vertices of the result"
                        % (s, sorted(mr.V, key=repr), sv)}]
    for w in O.all_words(labels, 1):
        a = h.accepts(list(w))
        if a is not False:
            return [{"key": "recurrent/%s/accepts/pruned-start" % who,
                     "msg": "start vertex %r was pruned, the result has start_vertices %r and accepts(%r) = %r" % (s, sv, list(w), a)}]
    return []


def check_recurrent(f, m, route, s, cls, snap, stats, labels=("a",), first=True):
    v = []
    mr = m.recurrent()
    if first:
        mr2 = recurrent_by_cycles(m)
        if mr.key() != mr2.key():
            raise AssertionError("oracles disagree on the recurrent part of %r" % (m.key(),))
    g = f.recurrent()
    g2 = f.recurrent(inplace=False)
    stats["t"] += 3
    v += unchanged(f, snap, "recurrent", cls) or reroot_leaves(g, f, snap, "recurrent", cls)
    if g is None or g2 is None:
        v.append({"key": "recurrent/copy/returns-None", "msg": "recurrent(inplace=False) returned None"})
    if v:
        return v
    f3 = build(m, route, s)
    f3.recurrent(inplace=True)
    for who, h in (("copy", g), ("copy", g2), ("inplace", f3)):
        v += same_edges(h, mr.E, "recurrent/%s/not-the-greatest-fixpoint" % who,
                        "recurrent() of %r (%s)" % (m.key(), who), V=mr.V)
        if not v:
            v += recurrent_start(h, mr, s, who, labels)
        if v:
            return v
    stats["rec"] = len(mr.V)
    return v


def check_rlp(f, m, s, roots, cls, snap, stats):
    v = []
    for root in roots:
        r = s if root is None else root
        S, dist = O.shortest_path_edges(m, r)
        for ties in (True, False):
            if root is None:
                g = f.remove_long_paths(edge_ties=ties)
            else:
                g = f.remove_long_paths(root=root, edge_ties=ties)
            stats["t"] += 1
            v += unchanged(f, snap, "remove_long_paths", cls) or reroot_leaves(g, f, snap, "remove_long_paths", cls)
            if v:
                return v
            who = "remove_long_paths(root=%r, edge_ties=%r) of %r" % (root, ties, m.key())
            if ties:
                v += same_edges(g, S, "shortest/edge_ties=True/edges", who)
            else:
                El, Eo, Ei = raw_edges(g)
                if not (sorted(El, key=repr) == sorted(Eo, key=repr) == sorted(Ei, key=repr)) or len(set(El)) != len(El):
                    v.append({"key": "shortest/edge_ties=False/views-differ", "msg": "%s: %r %r %r" % (who, El, Eo, Ei)})
                    return v
                if not set(El) <= S:
                    v.append({"key": "shortest/edge_ties=False/edge-not-on-a-shortest-path",
                              "msg": "%s: edges %r, shortest-path edges %r" % (who, sorted(El, key=repr), sorted(S, key=repr))})
                    return v
                parents = {}
                for (a, b, l) in El:
                    parents.setdefault(b, set()).add(a)
                want = {x for x in dist if x != r}
                if set(parents) != want or any(len(p) != 1 for p in parents.values()):
                    v.append({"key": "shortest/edge_ties=False/not-a-spanning-tree",
                              "msg": "%s: parents %r, reachable %r" % (who, parents, sorted(want, key=repr))})
                    return v
            if v:
                return v
            stats["rlp"] += len(S)
    return v


def case_ops(case):
    m = M(range(case["k"]), case["E"])
    labels, Lm, route = case["labels"], case["L"], case["route"]
    cls = ROUTE_CLASS[route]
    V = sorted(m.V)
    stats = {"t": 0, "enum": 0, "rec": 0, "rlp": 0}
    v = []
    for i, s in enumerate(V):
        f = build(m, route, s)
        snap = snapshot(f)
        v = check_multiple(f, m, s, labels, Lm, cls, snap, stats)
        if not v:
            v = check_rlp(f, m, s, ([None] + V) if i == 0 else [None], cls, snap, stats)
        if not v and (i == 0 or case.get("all_starts")):
            v = check_rename(f, m, route, s, labels, min(Lm, 4), cls, snap, stats)
            if not v and i == 0:       # relabelling to multi-character names: words are lists / tuples of labels
                v = check_rename(f, m, route, s, labels, min(Lm, 3), cls, snap, stats, target=TARGET_MC)
        if not v:                  # every start vertex: whether it survives the pruning depends on it
            v = check_recurrent(f, m, route, s, cls, snap, stats, labels=labels, first=(i == 0))
        if v:
            break
    return {"v": v, "t": stats["t"], "o": "%d/%d/%d" % (stats["enum"], stats["rec"], stats["rlp"]),
            "nt": len(m.E) > 0}


def case_prune(case):
    """The two pruning operations (recurrent from every start vertex, remove_long_paths from every root) and the
    walks on the automaton itself, for the larger label sets."""
    m = M(range(case["k"]), case["E"])
    labels, route = case["labels"], case["route"]
    cls = ROUTE_CLASS[route]
    V = sorted(m.V)
    stats = {"t": 0, "enum": 0, "rec": 0, "rlp": 0, "acc": 0}
    v = []
    adj = O.adjacency(m)
    words = list(O.all_words(labels, 2))
    for i, s in enumerate(V):
        f = build(m, route, s)
        snap = snapshot(f)
        v = same_edges(f, m.E, "build/edges/" + cls, "automaton built by route %s" % route, V=m.V)
        if not v:
            v = check_rlp(f, m, s, ([None] + V) if i == 0 else [None], cls, snap, stats)
        if not v:
            v = check_recurrent(f, m, route, s, cls, snap, stats, labels=labels, first=(i == 0))
        if not v:
            # the recurrent version as an automaton: its words from every surviving vertex
            mr = m.recurrent()
            g = f.recurrent()
            adjr = O.adjacency(mr)
            for u in sorted(mr.V):
                exp = sorted(((join(w), e) for (w, e) in O.language(mr, 2, u)), key=repr)
                got = sorted(g.enumerate_words(2, start_vertex=u, with_states=True), key=repr)
                stats["t"] += 1
                if got != exp:
                    v.append({"key": "recurrent/copy/language-by-enumerate_words",
                              "msg": "recurrent() of %r from %r: %r, expected %r" % (m.key(), u, got, exp)})
                    break
                for w in words:
                    a = g.accepts(join(w), start_vertex=u)
                    stats["t"] += 1
                    if a is not (O.walk_adj(adjr, w, u) is not None):
                        v.append({"key": "recurrent/copy/accepts",
                                  "msg": "recurrent() of %r: accepts(%r, start_vertex=%r) = %r" % (m.key(), join(w), u, a)})
                        break
                if v:
                    break
        if not v and i == 0:
            v = check_walks(f, m, adj, s, V[-1], words, 2, cls, stats, labels=labels)
        if v:
            break
    return {"v": v, "t": stats["t"], "o": "%d/%d" % (stats["rec"], stats["rlp"]), "nt": len(m.E) > 0}


def prune_cases(routes):
    """Automata over three labels: all with 2 states, and those with 3 states whose last vertex has no outgoing
    edge (a dead end which the other two may reach by one, two or three parallel edges)."""
    labels = ["a", "b", "c"]
    for m in O.all_deterministic(2, labels):
        for route in routes:
            yield {"k": 2, "labels": labels, "E": [list(e) for e in sorted(m.E)], "route": route}
    for m in _dead_end_automata(labels):
        for route in routes:
            yield {"k": 3, "labels": labels, "E": [list(e) for e in sorted(m.E)], "route": route}


def _dead_end_automata(labels):
    slots = [(u, l) for u in (0, 1) for l in labels]
    for img in itertools.product([None, 0, 1, 2], repeat=len(slots)):
        yield M(range(3), [(u, t, l) for (u, l), t in zip(slots, img) if t is not None])


# ------------------------------------------------------------------------------------------
# section 3: the built-in automata
# ------------------------------------------------------------------------------------------
def _builtin_model(name):
    import os
    import geometry_tools.automata as A
    path = os.path.join(os.path.dirname(A.__file__), "builtin", name)
    with open(path) as fh:
        names, table, initial = O.read_kbmag_table(fh.read())
    return O.model_of_table(names, table), names, initial


def _ordered_adjacency(m, names):
    """Adjacency with the file's label order (the order the library iterates in)."""
    adj = O.adjacency(m)
    return {v: {l: adj[v][l] for l in names if l in adj[v]} for v in sorted(adj)}


def builtin_length(name, cap, lmax):
    """Largest L <= lmax with at most `cap` accepted words of length <= L (oracle count)."""
    m, names, initial = _builtin_model(name)
    adj = _ordered_adjacency(m, names)
    cnt = {initial[0]: 1}
    total, L = 1, 0
    while L < lmax:
        nxt = {}
        for v, c in cnt.items():
            for l, w in adj[v].items():
                nxt[w] = nxt.get(w, 0) + c
        if total + sum(nxt.values()) > cap:
            break
        cnt, total, L = nxt, total + sum(nxt.values()), L + 1
    return L


def count_k_paths(adj, k):
    """Number of k-edge paths in the whole automaton (= edges of the k-step automaton when
    every vertex is reachable in multiples of k steps; an upper bound otherwise)."""
    cnt = {v: 1 for v in adj}
    for _ in range(k):
        cnt = {v: sum(cnt[w] for w in adj[v].values()) for v in adj}
    return sum(cnt.values())


def multiple_cost(adj, k, start, cap):
    """Cost estimate only (never used to judge results): number of edge insertions the
    library's breadth-first construction of the k-step automaton performs; it re-processes a
    vertex once per time it was queued before its first visit."""
    from collections import deque
    npaths = {}

    def kpaths(v):
        if v not in npaths:
            ends = [v]
            for _ in range(k):
                ends = [w for x in ends for w in adj[x].values()]
            npaths[v] = ends
        return npaths[v]
    todo, visited, cost = deque([start]), set(), 0
    while todo and cost <= cap:
        v = todo.popleft()
        visited.add(v)
        for w in kpaths(v):
            cost += 1
            if w not in visited:
                todo.append(w)
    return cost


def case_builtin(case):
    from geometry_tools.automata import fsa
    name, L = case["name"], case["L"]
    m, names, initial = _builtin_model(name)
    s = initial[0]
    adj = _ordered_adjacency(m, names)
    f = fsa.load_builtin(name)
    cls = "dict-built"
    stats = {"t": 0, "enum": 0, "rec": 0, "rlp": 0}
    v = []
    if list(f.start_vertices) != initial:
        return {"v": [{"key": "builtin/start-vertices", "msg": "%r != %r" % (f.start_vertices, initial)}]}
    snap = snapshot(f)
    lang = [sorted((join(w), e) for (w, e) in O.paths_adj(adj, n, s)) for n in range(L + 1)]
    exp = sorted(x for n in range(L + 1) for x in lang[n])
    got = list(f.enumerate_words(L, with_states=True))
    if sorted(got, key=repr) != exp:
        v.append({"key": "enumerate/words(with_states)/" + cls, "msg": "%s up to %d: %d words, expected %d" % (name, L, len(got), len(exp))})
        return {"v": v}
    got = list(f.enumerate_fixed_length_paths(L))
    if sorted(got) != [w for (w, e) in lang[L]]:
        v.append({"key": "enumerate/fixed_length_paths/" + cls, "msg": "%s length %d: %d words, expected %d" % (name, L, len(got), len(lang[L]))})
        return {"v": v}
    # every accepted word up to L-1 and each of its one-letter extensions (this visits every
    # shortest rejected word), plus the accepted words of length L
    nacc = 0
    for n in range(L + 1):
        for (ws, e) in lang[n]:
            for ext in ([""] + list(names) if n < L else [""]):
                w = ws + ext
                end = O.walk_adj(adj, w, s)
                stats["t"] += 3
                nacc += end is not None
                a = f.accepts(w)
                if a is not (end is not None):
                    v.append({"key": "walk/accepts/" + cls, "msg": "%s: accepts(%r) = %r, oracle end %r" % (name, w, a, end)})
                    return {"v": v}
                r = follow(f, w)
                if r != (REJ if end is None else end):
                    v.append({"key": "walk/follow_word/" + cls, "msg": "%s: follow_word(%r) = %r, oracle %r" % (name, w, r, end)})
                    return {"v": v}
                p = f.initial_accepted_subword(w)
                if p != (w if end is not None else ws):
                    v.append({"key": "walk/initial_accepted_subword/" + cls, "msg": "%s: initial_accepted_subword(%r) = %r" % (name, w, p)})
                    return {"v": v}
    # operations
    ks = []
    for k in (1, 2, 3, 4, "even"):
        kk = 2 if k == "even" else k
        if multiple_cost(adj, kk, s, case["kcap"]) > case["kcap"]:
            continue            # building the k-step automaton would take more than kcap edge insertions
        ks.append(k)
        nm = "even_automaton" if k == "even" else "automaton_multiple"
        g = f.even_automaton() if k == "even" else f.automaton_multiple(k)
        v += unchanged(f, snap, nm, cls) or reroot_leaves(g, f, snap, nm, cls)
        n = L // kk
        exp = sorted(x for j in range(n + 1) for x in lang[kk * j])
        got = list(g.enumerate_words(n))
        stats["t"] += 2
        if sorted(got) != [w for (w, e) in exp] and not v:
            v.append({"key": "multiple/%s/language-by-enumerate_words" % nm,
                      "msg": "%s k=%r: %d words of <=%d labels, expected %d" % (name, k, len(got), n, len(exp))})
        if v:
            return {"v": v}
        # chunk-wise accepts: accepted words and their one-letter-changed variants
        for (ws, e) in exp:
            if len(ws) == 0:
                continue
            for last in names:
                w = ws[:-1] + last
                chunks = [w[i:i + kk] for i in range(0, len(w), kk)]
                a = g.accepts(chunks)
                stats["t"] += 1
                if a is not (O.walk_adj(adj, w, s) is not None):
                    v.append({"key": "multiple/%s/accepts-chunked-word" % nm,
                              "msg": "%s k=%r: result.accepts(%r) = %r" % (name, k, chunks, a)})
                    return {"v": v}
    # relabelling: cyclic shift of the names and swapcase (both injective)
    maps = [dict(zip(names, names[1:] + names[:1])), {n: n.swapcase() for n in names}]
    for pi in maps:
        g = f.rename_generators(dict(pi), inplace=False)
        v += unchanged(f, snap, "rename_generators", cls) or reroot_leaves(g, f, snap, "rename_generators", cls)
        mm = m.rename(pi)
        v += same_edges(g, mm.E, "rename/copy/edges", "%s rename %r" % (name, pi))
        if v:
            return {"v": v}
        exp2 = sorted((join(pi[l] for l in w), e) for n in range(min(L, 3) + 1) for (w, e) in lang[n])
        got = list(g.enumerate_words(min(L, 3), with_states=True))
        if sorted(got, key=repr) != exp2:
            v.append({"key": "rename/copy/language-by-enumerate_words", "msg": "%s rename %r" % (name, pi)})
            return {"v": v}
        h = copy.deepcopy(f)
        h.rename_generators(dict(pi), inplace=True)
        v += same_edges(h, mm.E, "rename/inplace/edges", "%s rename %r in place" % (name, pi))
        if v:
            return {"v": v}
    mr = m.recurrent()
    if mr.key() != recurrent_by_cycles(m).key():
        raise AssertionError("oracles disagree on the recurrent part of " + name)
    g = f.recurrent()
    v += unchanged(f, snap, "recurrent", cls) or reroot_leaves(g, f, snap, "recurrent", cls)
    v += same_edges(g, mr.E, "recurrent/copy/not-the-greatest-fixpoint", "%s recurrent()" % name, V=mr.V)
    if not v:
        v += recurrent_start(g, mr, s, "copy", names)
    if v:
        return {"v": v}
    v += check_rlp(f, m, s, [None, s] + sorted(m.V)[1:3], cls, snap, stats)
    return {"v": v, "t": stats["t"], "o": "%s/%d/%d/%r" % (name, nacc, len(mr.V), ks), "nt": True}


# ------------------------------------------------------------------------------------------
# section 4: histories mixing queries and operations (engine E)
# ------------------------------------------------------------------------------------------
def _words(alphabet, n):
    return [list(w) for w in O.all_words(alphabet, n)]


def enabled_ops(m, alphabet, base, s):
    V = sorted(m.V, key=repr)
    adj = O.adjacency(m)
    ops = []
    for u in V:
        for w in V:
            ops.append(["has_edge", u, w])
            # edge_labels on any pair (no edge: an empty list); edge_label on any pair (documented to raise
            # unless there is exactly one edge) - the queries must not change the automaton either way
            ops.append(["edge_labels", u, w])
            ops.append(["edge_label", u, w])
    for u in V:
        ops.append(["neighbors", u])
        ops.append(["edges_at", u])
        ops.append(["enum", 2, u])
    wl = 2 if len(alphabet) <= 2 else 1
    start_ok = s in m.V
    for w in _words(alphabet, wl):
        if start_ok:
            ops.append(["accepts", w, None])
            ops.append(["follow", w, None])
            ops.append(["prefix", w])
        elif V:
            ops.append(["accepts", w, V[0]])
    if base:
        for pi in injective_maps(alphabet, TARGET):
            ops.append(["rename", pi, True])
            ops.append(["rename", pi, False])
    ops.append(["recurrent", True])
    ops.append(["recurrent", False])
    for r in V:
        ops.append(["rlp", r, True])
        ops.append(["rlp", r, False])
    if start_ok:
        ops.append(["rlp", None, True])
        if base and len(alphabet) <= 2:
            ops.append(["multiple", 1])
            ops.append(["multiple", 2])
            ops.append(["even"])
    ops.append(["deepcopy"])
    return ops


def apply_op(st, op, v, retained):
    """st = dict(f, m, alphabet, base, s, cls).  Query results are checked here."""
    f, m, s, cls = st["f"], st["m"], st["s"], st["cls"]
    name = op[0]
    adj = O.adjacency(m)
    if name == "has_edge":
        got = f.has_edge(op[1], op[2])
        exp = any(a == op[1] and b == op[2] for (a, b, l) in m.E)
        if got is not exp:
            v.append({"key": "history/has_edge/" + cls, "msg": "has_edge(%r, %r) = %r" % (op[1], op[2], got)})
    elif name in ("edge_labels", "edge_label"):
        exp = sorted(l for (a, b, l) in m.E if a == op[1] and b == op[2])
        if name == "edge_labels":
            got = list(f.edge_labels(op[1], op[2]))
        else:
            try:
                got = [f.edge_label(op[1], op[2])]
                if len(exp) != 1:
                    v.append({"key": "history/edge_label/no-error/" + cls, "msg": "edge_label(%r, %r) = %r although there are %d edges" % (op[1], op[2], got, len(exp))})
                    got = exp
            except ValueError:
                got = exp if len(exp) != 1 else ["<ValueError>"]
        if sorted(got) != exp:
            v.append({"key": "history/%s/%s" % (name, cls), "msg": "%s(%r, %r) = %r, model %r" % (name, op[1], op[2], got, exp)})
    elif name == "neighbors":
        go = {w for w in f.neighbors_out(op[1])}
        gi = {w for w in f.neighbors_in(op[1])}
        if go != {b for (a, b, l) in m.E if a == op[1]} or gi != {a for (a, b, l) in m.E if b == op[1]}:
            v.append({"key": "history/neighbors/" + cls, "msg": "neighbors of %r: out %r in %r" % (op[1], go, gi)})
    elif name == "edges_at":
        go = sorted(f.edges_out(op[1]), key=repr)
        gi = sorted(f.edges_in(op[1]), key=repr)
        if go != sorted((e for e in m.E if e[0] == op[1]), key=repr) or gi != sorted((e for e in m.E if e[1] == op[1]), key=repr):
            v.append({"key": "history/edges_out-in/" + cls, "msg": "edges at %r: out %r in %r" % (op[1], go, gi)})
    elif name == "enum":
        got = sorted(((w, e) for (w, e) in f.enumerate_words(op[1], start_vertex=op[2], with_states=True)), key=repr)
        exp = sorted(((join(w), e) for (w, e) in O.language(m, op[1], op[2])), key=repr)
        if got != exp:
            v.append({"key": "history/enumerate_words/" + cls, "msg": "from %r: %r, expected %r" % (op[2], got, exp)})
    elif name == "accepts":
        w, start = op[1], op[2]
        got = f.accepts(list(w)) if start is None else f.accepts(list(w), start_vertex=start)
        exp = O.walk_adj(adj, w, s if start is None else start) is not None
        if got is not exp:
            v.append({"key": "history/accepts/" + cls, "msg": "accepts(%r, %r) = %r" % (w, start, got)})
    elif name == "follow":
        got = follow(f, list(op[1]))
        end = O.walk_adj(adj, op[1], s)
        if got != (REJ if end is None else end):
            v.append({"key": "history/follow_word/" + cls, "msg": "follow_word(%r) = %r, oracle %r" % (op[1], got, end)})
    elif name == "prefix":
        got = f.initial_accepted_subword(list(op[1]))
        exp = join(O.longest_accepted_prefix(m, op[1], s))
        if got != exp:
            v.append({"key": "history/initial_accepted_subword/" + cls, "msg": "%r -> %r, oracle %r" % (op[1], got, exp)})
        else:
            found = check_prefixes(f, tuple(op[1]), list(op[1]), len(O.longest_accepted_prefix(m, op[1], s)),
                                   cls + kind_class("tuple", st["alphabet"]), "history")
            for x in found:
                x["key"] = x["key"].replace("walk/", "history/", 1)
            v += found
    elif name == "rename":
        pi, inplace = op[1], op[2]
        mm = m.rename(pi)
        if inplace:
            f.rename_generators(dict(pi), inplace=True)
            g = f
        else:
            g = f.rename_generators(dict(pi), inplace=False)
            retained.append((f, snapshot(f), "rename_generators", cls))
        v += same_edges(g, mm.E, "history/rename/edges", "rename %r inplace=%r" % (pi, inplace))
        st.update(f=g, m=mm, alphabet=sorted(pi[l] for l in st["alphabet"]), cls="dict-built")
    elif name == "recurrent":
        mr = m.recurrent()
        if op[1]:
            f.recurrent(inplace=True)
            g = f
        else:
            g = f.recurrent(inplace=False)
            retained.append((f, snapshot(f), "recurrent", cls))
        v += same_edges(g, mr.E, "history/recurrent/not-the-greatest-fixpoint", "recurrent(inplace=%r) of %r" % (op[1], m.key()), V=mr.V)
        st.update(f=g, m=mr)
    elif name == "rlp":
        root, ties = op[1], op[2]
        r = s if root is None else root
        S, dist = O.shortest_path_edges(m, r)
        g = f.remove_long_paths(edge_ties=ties) if root is None else f.remove_long_paths(root=root, edge_ties=ties)
        retained.append((f, snapshot(f), "remove_long_paths", cls))
        if ties:
            v += same_edges(g, S, "history/shortest/edges", "remove_long_paths(%r, True) of %r" % (root, m.key()))
            E2 = S
        else:
            El, Eo, Ei = raw_edges(g)
            E2 = set(El)
            parents = {}
            for (a, b, l) in El:
                parents.setdefault(b, set()).add(a)
            if (not E2 <= S or len(E2) != len(El) or sorted(El, key=repr) != sorted(Eo, key=repr)
                    or sorted(El, key=repr) != sorted(Ei, key=repr)
                    or set(parents) != {x for x in dist if x != r} or any(len(p) != 1 for p in parents.values())):
                v.append({"key": "history/shortest/tree", "msg": "remove_long_paths(%r, False) of %r: %r" % (root, m.key(), El)})
        if not v:
            g.start_vertices = [r]
            st.update(f=g, m=M(set(g.vertices()), E2), s=r, cls="edit-built")
    elif name in ("multiple", "even"):
        k = 2 if name == "even" else op[1]
        g = f.even_automaton() if name == "even" else f.automaton_multiple(k)
        retained.append((f, snapshot(f), "automaton_multiple", cls))
        # judged on its language; the model of the result is then read off the real object
        # (the property does not name the states of the k-step automaton)
        exp = sorted(join(w) for j in range(4) for (w, e) in O.paths_adj(adj, k * j, s))
        got = sorted(g.enumerate_words(3))
        if got != exp:
            v.append({"key": "history/multiple/language-by-enumerate_words",
                      "msg": "automaton_multiple(%d) of %r from %r: %r, expected %r" % (k, m.key(), s, got, exp)})
        El, Eo, Ei = raw_edges(g)
        if not v and not (sorted(El, key=repr) == sorted(Eo, key=repr) == sorted(Ei, key=repr)):
            v.append({"key": "history/multiple/views-differ", "msg": "result of automaton_multiple(%d): %r %r %r" % (k, El, Eo, Ei)})
        if not v:
            alpha = sorted({join(w) for w in itertools.product(st["alphabet"], repeat=k)})
            st.update(f=g, m=M(set(g.vertices()) | {a for e in El for a in e[:2]}, El), alphabet=alpha,
                      base=(k == 1), cls="edit-built")
    elif name == "deepcopy":
        g = copy.deepcopy(f)
        retained.append((f, snapshot(f), "deepcopy", cls))
        st.update(f=g)
    else:
        raise ValueError(name)


def state_invariants(st):
    """The reached automaton has the model's edges and the model's language from every vertex."""
    f, m, cls = st["f"], st["m"], st["cls"]
    v = same_edges(f, m.E, "history/state/edges/" + cls, "reached automaton")
    if v:
        return v
    adj = O.adjacency(m)
    alphabet = list(st["alphabet"])
    # the start vertex of the history: still the start vertex while it is a vertex; once it was pruned
    # (recurrent) it is not listed as a start vertex any more and nothing is accepted from the default start
    sv = list(f.start_vertices)
    if st["s"] in m.V:
        if sv != [st["s"]]:
            return [{"key": "history/state/start-vertices/surviving-start/" + cls,
                     "msg": "start_vertices %r, expected %r (vertices %r)" % (sv, [st["s"]], sorted(m.V, key=repr))}]
    else:
        if any(x not in m.V for x in sv):
            return [{"key": "history/state/start-vertices/pruned-start/" + cls,
                     "msg": "start_vertices %r lists a vertex that was deleted (vertices %r)" % (sv, sorted(m.V, key=repr))}]
        for w in O.all_words(alphabet, 1):
            if f.accepts(list(w)) is not False:
                return [{"key": "history/state/accepts/pruned-start/" + cls,
                         "msg": "accepts(%r) is not False although the start vertex was pruned (start_vertices %r)" % (list(w), sv)}]
    probe = alphabet + (["z"] if st["base"] else [])
    n = 2 if len(probe) <= 5 else 1
    for u in sorted(m.V, key=repr):
        exp = sorted(((join(w), e) for (w, e) in O.language(m, 3, u)), key=repr)
        got = sorted(f.enumerate_words(3, start_vertex=u, with_states=True), key=repr)
        if got != exp:
            return [{"key": "history/state/enumerate_words/" + cls, "msg": "from %r: %r, expected %r" % (u, got, exp)}]
    for u in sorted(m.V, key=repr):
        for w in O.all_words(probe, n):
            a = f.accepts(list(w), start_vertex=u)
            if a is not (O.walk_adj(adj, w, u) is not None):
                return [{"key": "history/state/accepts/" + cls,
                         "msg": "accepts(%r, start_vertex=%r) = %r on %r" % (list(w), u, a, m.key())}]
    return []


def case_history(hist):
    _, k, labels, E, route, s = hist[0]
    m = M(range(k), E)
    st = {"f": build(m, route, s), "m": m, "alphabet": list(labels), "base": True, "s": s,
          "cls": ROUTE_CLASS[route]}
    v, retained = [], []
    for op in hist[1:]:
        apply_op(st, op, v, retained)
        if v:
            break
    sig = shared = None
    if not v:
        sig = real_signature(st["f"])       # before the invariants query the automaton
        # hidden state: a retained original that shares a container with the current automaton has
        # different futures from an independent one, so such states must not be merged
        cur = containers(st["f"])
        shared = tuple(sorted({opn for (g, snap, opn, cls) in retained if g is not st["f"] and containers(g) & cur}))
        for (g, snap, opn, cls) in retained:
            v += unchanged(g, snap, opn, cls)
    if not v:
        v = state_invariants(st)
    if not v:
        # start vertices are a public list: re-rooting ANY of the automata of this history in place (the reached
        # one, or an original a non-in-place operation was applied to) re-roots no other one
        objs = [(st["f"], "result", st["cls"])]
        for (g, snap, opn, cls) in retained:
            if all(g is not o for (o, _, _) in objs):
                objs.append((g, opn, cls))
        for i, (x, opn_x, _) in enumerate(objs):
            before = [list(o.start_vertices) for (o, _, _) in objs]
            sv, saved = reroot_in_place(x)
            try:
                for j, (o, opn_o, cls_o) in enumerate(objs):
                    if j != i and list(o.start_vertices) != before[j]:
                        opn, cls = (opn_o, cls_o) if i == 0 else (opn_x, objs[i][2])
                        v.append({"key": "start-vertices-shared/%s/%s" % (opn, cls),
                                  "msg": "re-rooting %s in place re-rooted %s as well: start_vertices %r -> %r (one list shared by two automata)"
                                         % ("the reached automaton" if i == 0 else "the receiver of " + opn_x,
                                            "the reached automaton" if j == 0 else "the receiver of " + opn_o, before[j], list(o.start_vertices))})
                        break
            finally:
                sv[:] = saved
            if v:
                break
    if not v:
        # the other direction: the caller goes on editing a retained original in place; the automaton
        # reached by the history (a result of a non-in-place operation) must not follow
        cur = snapshot(st["f"])
        for (g, snap, opn, cls) in retained:
            if g is st["f"]:
                continue
            g.recurrent(inplace=True)
            for u in list(g.vertices())[:1]:
                g.delete_vertex(u)
            if snapshot(st["f"]) != cur:
                v.append({"key": "result-follows-original/%s/%s" % (opn, cls),
                          "msg": "editing the receiver of %s in place changed its result: %s -> %s" % (opn, cur, snapshot(st["f"]))})
                break
    key = repr((st["m"].key(), st["s"], st["alphabet"], st["base"], sig, shared))
    ops = [] if v else enabled_ops(st["m"], st["alphabet"], st["base"], st["s"])
    return {"v": v, "key": key, "ops": ops, "t": len(hist),
            "o": repr((st["m"].key(), st["cls"])), "nt": len(st["m"].E) > 0}


HISTORY_GRAPHS = [
    (2, [(0, 1, "a")]),
    (2, [(0, 1, "a"), (0, 1, "b"), (1, 0, "a")]),
    (2, [(0, 0, "a"), (0, 1, "b"), (1, 1, "b")]),
    (3, [(0, 1, "a"), (1, 2, "a"), (2, 0, "a")]),
    (3, [(0, 1, "a"), (0, 2, "b"), (1, 2, "b"), (2, 2, "a")]),
    (3, [(0, 1, "a"), (0, 2, "b"), (1, 2, "a"), (2, 1, "a"), (1, 0, "b")]),
    (3, [(0, 0, "a"), (0, 1, "b"), (1, 2, "a"), (1, 1, "b")]),
]


# ------------------------------------------------------------------------------------------
def automaton_cases(sizes, routes, L, all_starts=False):
    for (k, labels) in sizes:
        for m in O.all_deterministic(k, labels):
            E = sorted(m.E)
            for route in routes:
                c = {"k": k, "labels": list(labels), "E": [list(e) for e in E], "route": route, "L": L}
                if all_starts:
                    c["all_starts"] = True
                yield c


def run(ctx):
    q = ctx.quick
    ctx.rule = ("every deterministic automaton on vertices 0..k-1 over the label set (each (vertex,label) has no "
                "edge or one target) x construction route x every start vertex x every word up to length L is "
                "executed on the real FSA class and compared with the set model; histories of queries and "
                "operations are explored breadth-first; non-trivial = the automaton has at least one edge")
    ctx.assume("automata are deterministic; exactly one start vertex is set explicitly (automaton_multiple, "
               "initial_accepted_subword and default-start calls read start_vertices)")
    ctx.assume("start_vertices is a public list: the caller may re-root an automaton in place (start_vertices[0] = r, append); 'non-in-place "
               "operations leave the original unchanged' includes its start vertices, in both directions (result vs receiver)")
    ctx.assume("the recurrent version is a sub-automaton: its start vertices are vertices of it.  A start vertex that survives the pruning stays "
               "the start vertex; when it is pruned the result lists no deleted vertex as a start vertex and accepts() (documented: 'any start "
               "state is allowed') is False for every word; follow_word / the enumerators from a missing default start are not called")
    ctx.assume("remove_long_paths is judged on its edges only (the property names the edges it keeps; its result is rooted by the caller)")
    ctx.assume("relabelling maps are injective and defined on every label of the alphabet")
    ctx.assume("a word over single-letter labels is a string, a list or a tuple of labels; over multi-character labels (k-step "
               "automata, relabelled automata, automata built with such labels) it is a list or a tuple of labels; the prefix "
               "queries return the concatenation of the labels of the prefix")
    ctx.assume("has_edge, edge_labels and edge_label are queried on every ordered pair of vertices; edge_label may raise ValueError unless there is exactly one edge (documented)")
    ctx.assume("initial_rejected_subword of a word that is NOT accepted is the longest accepted initial subword plus the next label "
               "(docstring and code agree); for an accepted word the docstring says None and the code returns the word: either is "
               "accepted, an exception is not")
    ctx.assume("remove_long_paths(edge_ties=False) is only required to be a spanning tree of shortest-path edges; "
               "vertex sets are compared for recurrent() only (language checks run from every vertex elsewhere)")
    ab, a, abc = ["a", "b"], ["a"], ["a", "b", "c"]
    if q:
        sizes = [(1, a), (1, ab), (2, a), (2, ab), (3, a), (3, ab)]
        routes = ["graph", "edits"]
        Lw, Lo = 5, 4
    else:
        sizes = [(1, a), (1, ab), (1, abc), (2, a), (2, ab), (2, abc), (3, a), (3, ab), (4, a)]
        routes = ["graph", "hidden", "out", "edits"]
        Lw, Lo = 7, 6
    dom = {"(states, labels)": [[k, len(l)] for k, l in sizes], "routes": routes,
           "start vertex": "every vertex", "words": "all words over the label set, length 0..%d" % Lw,
           "word spelling": "string; also list of labels and tuple of labels for the words of length <= %d" % KIND_L}
    ctx.product("walks-and-enumerators", "checks.c10:case_walk", automaton_cases(sizes, routes, Lw),
                domains=dom, chunk=32)
    # automata whose labels have more than one character: words can only be spelled as lists / tuples of labels
    mc_labels = [["aa", "ab"], ["s0", "s1"], ["x", "yz"], ["a", "ab"]] + ([] if q else [["s0", "s1", "s10"], ["ab", "ba", "b"]])
    mc_sizes = [(k, l) for l in mc_labels for k in (1, 2)] + ([] if q else [(3, mc_labels[0]), (3, mc_labels[2])])
    ctx.product("walks-multi-character-labels", "checks.c10:case_walk", automaton_cases(mc_sizes, ["graph", "edits"], 4 if q else 5),
                domains={"label sets": mc_labels, "states": "1, 2" + ("" if q else " (3 for the first and third label set)"),
                         "routes": ["graph", "edits"], "start vertex": "every vertex",
                         "words": "all sequences of labels of length 0..%d, each as a list and (length <= %d) as a tuple" % (4 if q else 5, KIND_L),
                         "queries": "accepts, follow_word, initial_accepted_subword, initial_rejected_subword, the enumerators"}, chunk=32)
    if not q:
        ctx.product("walks-3-states-3-labels", "checks.c10:case_walk", automaton_cases([(3, abc)], ["graph"], 3),
                    domains={"(states, labels)": [[3, 3]], "routes": ["graph"], "start vertex": "every vertex",
                             "words": "all words over the label set, length 0..3"}, chunk=256)
    dom2 = dict(dom)
    dom2.update({"words": "length 0..%d (multiples: at least 2 chunks)" % Lo, "k": [1, 2, 3, 4, "even"],
                 "relabellings": "every injective map into {a,b,c} (words as strings and lists) and, for the first start vertex, into {s0,s1,s2} "
                                 "(words as lists and tuples of labels): edges, enumeration, accepts and the prefix queries",
                 "k-step automata": "accepts and the prefix queries on every word given as list / tuple of k-letter labels",
                 "roots": "every vertex and the default",
                 "edge_ties": [True, False]})
    ctx.product("operations", "checks.c10:case_ops", automaton_cases(sizes, routes, Lo, all_starts=not q),
                domains=dom2, chunk=16)
    # automata that were EDITED before the operations: every edge was first added with another head (shifted by 1, by 2)
    # and then redirected by a second add_edges call
    rsizes = [(k, l) for (k, l) in sizes if k >= 2]
    dom3 = dict(dom2)
    dom3.update({"(states, labels)": [[k, len(l)] for k, l in rsizes],
                 "routes": "add_edges with every head shifted by 1 mod k, then add_edges with the true edges"})
    ctx.product("operations-on-redirected-edges", "checks.c10:case_ops",
                automaton_cases(rsizes, ["redirect1"], Lo, all_starts=not q), domains=dom3, chunk=16)
    r2sizes = [(k, l) for (k, l) in sizes if k >= 3]
    ctx.product("pruning-redirected-by-2", "checks.c10:case_prune",
                [{"k": c["k"], "labels": c["labels"], "E": c["E"], "route": c["route"]} for c in automaton_cases(r2sizes, ["redirect2"], 0)],
                domains={"(states, labels)": [[k, len(l)] for k, l in r2sizes],
                         "routes": "add_edges with every head shifted by 2 mod k, then add_edges with the true edges",
                         "checked": "as in pruning-3-labels"}, chunk=64)
    proutes = ["graph", "edits", "redirect1"]
    ctx.product("pruning-3-labels", "checks.c10:case_prune", prune_cases(proutes),
                domains={"automata": "all deterministic automata with 2 states over {a,b,c} (729); all with 3 states over {a,b,c} whose "
                                     "vertex 2 has no outgoing edge (4096: parallel edges into a dead end from surviving vertices)",
                         "routes": proutes, "start vertex": "every vertex", "roots": "every vertex and the default", "edge_ties": [True, False],
                         "checked": "built automaton, remove_long_paths, recurrent (edges, vertices, start vertices, words and accepts of the "
                                    "result from every surviving vertex, words <= 2), walks on the automaton (words <= 2)"}, chunk=64)
    from geometry_tools.automata import fsa
    names = sorted(n for n in fsa.list_builtins() if not n.startswith("__"))
    cap, lmax = (1500, 4) if q else (40000, 8)
    kcap = 250000 if q else 5000000
    bcases = [{"name": n, "L": builtin_length(n, cap, lmax), "kcap": kcap} for n in names]
    ctx.product("builtin-automata", "checks.c10:case_builtin", bcases,
                domains={"files": len(names), "multiples": "k in 1..4 and even, skipped when building the k-step automaton needs > %d edge insertions" % kcap,
                         "word length": "largest L<=%d with <=%d accepted words: %r"
                         % (lmax, cap, {c["name"]: c["L"] for c in bcases})}, chunk=1)
    roots = []
    for (k, E) in HISTORY_GRAPHS:
        for route in ("graph", "edits") if q else ("graph", "out", "edits"):
            roots.append([["root", k, ab, [list(e) for e in E], route, 0]])
    ctx.bfs("query-operation-histories", "checks.c10:case_history", roots, depth=3 if q else 5,
            domains={"roots": len(roots), "queries": "has_edge, edge_labels/edge_label (all vertex pairs), neighbors_in/out, "
                     "edges_in/out, enumerate_words, accepts, follow_word, initial_accepted_subword (words <= 2 labels)",
                     "operations": "rename_generators (all injective maps, in place or not), recurrent (in place or not), "
                                   "remove_long_paths (every root, edge_ties), automaton_multiple(1,2), even_automaton, deepcopy"},
            chunk=64)
    if not q:
        roots2 = []
        for k in (1, 2):
            for m in O.all_deterministic(k, ab):
                for route in ("graph", "edits"):
                    roots2.append([["root", k, ab, [list(e) for e in sorted(m.E)], route, 0]])
        ctx.bfs("histories-all-2-state-roots", "checks.c10:case_history", roots2, depth=2,
                domains={"roots": "all deterministic automata with <= 2 states over {a,b} x 2 routes"}, chunk=64)
