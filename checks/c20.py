"""C20 - CP^1 points, disks and Moebius maps are consistent on the Riemann sphere.

Engine P (product enumeration), oracle mc/oracle/cp1.py.  Four sections:

  points   lattice of points of C u {oo} x input kinds of CP1Point (cx_affine, real_affine,
           spherical, projective x homogeneous multipliers) x packaging (single, arrays):
           spherical o projective = id both ways, unit norm, = stereographic projection;
  disks    centres x radii, affine and Fubini-Study metric, every centre kind:
           circle_parameters / boundary data / center_inside / fs_center / fs_diameter report the
           disk that was asked for; complement() swaps the side and keeps the circle;
           complement().complement() is the disk again;
  moebius  all 2x2 matrices with entries in {0, +-1, +-i} and det != 0 x disk lattice: the image
           disk is bounded by the image circle (oracle: circle through the Moebius images of
           three oracle-chosen boundary points) on the side of the image of the interior;
  pairs    all ordered pairs of a 12-disk family in general position x 6 ways of building a
           bounded / unbounded disk x {elementwise, pairwise}, single disks and composite
           arrays: contains / intersects = the set-theoretic answer.

Disks are built through the constructor (centre, radius), through complement(), and directly
from stored data chosen by the harness (three boundary points + one interior point, rows
scaled by real or complex multipliers, interior point finite / far outside / exactly oo), so
that the set-theoretic sections do not depend on the constructor.  In the Moebius and pair
sections the ground truth is the disk *as stored* (oracle circle through the stored boundary
points, side of the stored interior point): the constructor defect (F9) is then reported by
the disks section only.  Thorough tier adds: products of two alphabet matrices, the whole
disk lattice for the Moebius section, the pair family under two more similarities, a 97 x 97
sphere lattice.

Conventions read from the code (complex_projective.py, projective.py) and re-validated on
anchor points by the points section: homogeneous coordinates are rows [w0, w1] with affine
coordinate z = w1/w0 (standard chart 0), oo = [0, 1]; Transformation matrices act on rows from
the right, so [[a, b], [c, d]] is z -> (b + d z)/(a + c z); oo is the pole (0, 0, +1).
"""
import cmath
import itertools
import math
import os
import traceback
import warnings

import numpy as np

# the library's chart test casts complex data to float64 (finding F8); keep the run output clean
warnings.filterwarnings("ignore", category=getattr(np, "exceptions", np).ComplexWarning)

from mc.oracle import cp1
from mc.oracle.cp1 import INF, is_inf

TOL = 1e-9            # well-conditioned quantities: 1e-9 (1 + |value|)
TOL_FS = 1e-7         # quantities through arccos/arctan differences and tan of half sums
MARGIN = 0.05         # general position of disk pairs
KINDS = ["cx_affine", "real_affine", "spherical", "projective"]


# ==========================================================================================
# JSON <-> extended complex numbers, library <-> oracle
# ==========================================================================================
def J(z):
    return "inf" if is_inf(z) else [float(complex(z).real), float(complex(z).imag)]


def Z(j):
    return INF if j == "inf" else complex(j[0], j[1])


def ext(w):
    """Homogeneous row [w0, w1] of the library -> extended complex number w1/w0."""
    w0, w1 = complex(w[0]), complex(w[1])
    if w0 == 0 or abs(w0) <= 1e-14 * abs(w1):
        return INF
    return w1 / w0


def point_input(z, kind, rep=1.0 + 0j):
    """The argument of CP1Point(.., coords=kind) that denotes z."""
    if kind == "cx_affine":
        return complex(z)
    if kind == "real_affine":
        return [complex(z).real, complex(z).imag]
    if kind == "spherical":
        return [float(x) for x in cp1.to_sphere(z)]
    if kind == "projective":
        return [0j, rep] if is_inf(z) else [rep, rep * complex(z)]
    raise ValueError(kind)


def close(a, b, tol=TOL):
    return abs(a - b) <= tol * (1.0 + abs(b))


def zclose(a, b, tol=TOL):
    """Extended complex numbers agree to tol (1 + |b|)."""
    if is_inf(a) or is_inf(b):
        return is_inf(a) and is_inf(b)
    return abs(a - b) <= tol * (1.0 + abs(b))


def lib_site(e):
    for fr in reversed(traceback.extract_tb(e.__traceback__)):
        if "/geometry_tools/" in fr.filename:
            return "%s:%s" % (os.path.basename(fr.filename), fr.name)
    return None


def attempt(v, what, f, note=""):
    """Run one library observable.  An exception raised inside geometry_tools is recorded as
    the violation exception/<Type>/<file:function>/<what> (same layout as the runner's key for
    escaped exceptions, plus the call/input class) so that the other observables of the case
    are still evaluated; anything else is a harness error and propagates."""
    try:
        return True, f()
    except Exception as e:
        site = lib_site(e)
        if site is None:
            raise
        v.append({"key": "exception/%s/%s/%s" % (type(e).__name__, site, what),
                  "msg": "%s: %s%s" % (type(e).__name__, str(e)[:200], (" [%s]" % note) if note else "")})
        return False, None


def add(v, key, msg):
    v.append({"key": key, "msg": msg})


# ==========================================================================================
# section 1: points
# ==========================================================================================
def zclass(z):
    if is_inf(z):
        return "infinity"
    if z == 0:
        return "origin"
    return "large" if abs(z) > 100 else "finite"


def case_point(case):
    from geometry_tools.complex_projective import (CP1Point, projective_to_spherical,
                                                   spherical_to_projective)
    v = []
    kind = case["kind"]
    zs = [Z(j) for j in case["zs"]]
    shape = tuple(case["shape"])
    rep = Z(case.get("rep", [1.0, 0.0]))
    t = 0
    # conventions on anchor points: which chart is affine, which pole is oo
    a0 = np.asarray(CP1Point(0j, coords="cx_affine").projective_coords())
    a1 = np.asarray(CP1Point(1.0 + 0j, coords="cx_affine").projective_coords())
    t += 2
    if not (a0.shape == (2,) and a0[0] != 0 and a0[1] == 0 and zclose(ext(a1), 1.0 + 0j)):
        add(v, "point/convention/affine-chart", "CP1Point(0) = %r, CP1Point(1) = %r: not [w, 0], [w, w]" % (a0, a1))
        return {"v": v, "t": t, "o": "convention", "nt": True}
    sinf = np.asarray(CP1Point(np.array([0j, 1.0 + 0j])).spherical_coords(), float)
    t += 1
    if not (abs(sinf[0]) <= TOL and abs(sinf[1]) <= TOL and close(abs(sinf[2]), 1.0)):
        add(v, "point/convention/pole", "oo = [0, 1] has spherical coordinates %r, not a pole" % (sinf,))
        return {"v": v, "t": t, "o": "convention", "nt": True}
    pole = 1.0 if sinf[2] > 0 else -1.0

    data = np.array([point_input(z, kind, rep) for z in zs])
    unit = data.shape[1:]
    data = data.reshape(shape + unit) if shape else data.reshape(unit)
    p = CP1Point(data, coords=kind)
    pd = np.asarray(p.projective_coords())
    sph = np.asarray(p.spherical_coords())
    t += 2
    if pd.shape != shape + (2,) or sph.shape != shape + (3,):
        add(v, "point/shape/" + kind, "input %r -> proj_data %r, spherical %r" % (data.shape, pd.shape, sph.shape))
        return {"v": v, "t": t, "o": "shape", "nt": True}
    back = np.asarray(spherical_to_projective(sph))                 # proj -> sph -> proj
    s0 = np.array([cp1.to_sphere(z, pole) for z in zs]).reshape(shape + (3,))
    fwd = np.asarray(spherical_to_projective(s0))                   # sph -> proj
    fwd_back = np.asarray(projective_to_spherical(fwd))             # sph -> proj -> sph
    q = CP1Point(np.array([[1.0, 0.0]] * len(zs)).reshape(shape + (2,)) if shape else np.array([1.0, 0.0]))
    set_back = np.asarray(q.spherical_coords(s0))                   # setter, then getter
    t += 4
    pd_f, sph_f, back_f = pd.reshape(-1, 2), sph.reshape(-1, 3), back.reshape(-1, 2)
    fwd_f, fb_f, sb_f, s0_f = fwd.reshape(-1, 2), fwd_back.reshape(-1, 3), set_back.reshape(-1, 3), s0.reshape(-1, 3)
    outs = set()
    for i, z in enumerate(zs):
        zc = zclass(z)
        cls = "%s/%s" % (kind, zc)
        if not np.all(np.isfinite(sph_f[i])) or not np.all(np.isfinite(pd_f[i])) or not np.any(pd_f[i] != 0):
            add(v, "point/not-a-point/" + cls, "z=%r: proj %r spherical %r" % (z, pd_f[i], sph_f[i]))
            continue
        if not zclose(ext(pd_f[i]), z):
            add(v, "point/constructor/" + cls, "CP1Point(%r, coords=%s) is %r (homogeneous %r)" % (
                point_input(z, kind, rep), kind, ext(pd_f[i]), pd_f[i]))
        if not close(float(np.linalg.norm(sph_f[i])), 1.0):
            add(v, "point/unit-norm/" + cls, "z=%r: |spherical| = %r" % (z, float(np.linalg.norm(sph_f[i]))))
        if np.max(np.abs(sph_f[i] - s0_f[i])) > TOL:
            add(v, "point/stereographic/" + cls, "z=%r: spherical_coords %r, stereographic projection from (0,0,%+d) %r" % (
                z, sph_f[i], pole, s0_f[i]))
        for nm, arr, ref in (("proj-sph-proj", back_f[i], ext(pd_f[i])), ("sph-proj", fwd_f[i], z)):
            bad = not np.all(np.isfinite(arr)) or not np.any(arr != 0) or not zclose(ext(arr), ref)
            if bad:
                add(v, "point/roundtrip/%s/%s" % (nm, zc), "z=%r: spherical_to_projective gives %r = %r, expected %r" % (
                    z, arr, ext(arr) if np.any(arr != 0) else None, ref))
        for nm, arr in (("sph-proj-sph", fb_f[i]), ("setter-getter", sb_f[i])):
            if not np.all(np.isfinite(arr)) or np.max(np.abs(arr - s0_f[i])) > TOL:
                add(v, "point/roundtrip/%s/%s" % (nm, zc), "s=%r comes back as %r" % (s0_f[i], arr))
        outs.add(zc)
    # affine read-out of finite points
    if not any(is_inf(z) for z in zs):
        ok, ra = attempt(v, "real_affine_coords/" + kind, lambda: np.asarray(p.real_affine_coords()))
        t += 1
        if ok:
            if ra.shape != shape + (2,):
                add(v, "point/shape/real_affine_coords", "shape %r for composite shape %r" % (ra.shape, shape))
            else:
                for i, z in enumerate(zs):
                    if not zclose(complex(*ra.reshape(-1, 2)[i]), z):
                        add(v, "point/real_affine_coords/" + kind, "z=%r read back as %r" % (z, ra.reshape(-1, 2)[i]))
    return {"v": v, "t": t, "o": "%s/%s/%d" % (kind, ",".join(sorted(outs)), len(shape)), "nt": True}


def case_sphere_lattice(case):
    """All points of the n x n probe lattice of the sphere at once (composite shape (n, n))."""
    from geometry_tools.complex_projective import (CP1Point, projective_to_spherical,
                                                   spherical_to_projective)
    v = []
    n = case["n"]
    S = cp1.probe_sphere_points(n)
    P = np.asarray(spherical_to_projective(S))
    S2 = np.asarray(projective_to_spherical(P))
    S3 = np.asarray(CP1Point(S, coords="spherical").spherical_coords())
    if P.shape != (n, n, 2) or S2.shape != S.shape or S3.shape != S.shape:
        add(v, "point/shape/sphere-lattice", "shapes %r %r %r" % (P.shape, S2.shape, S3.shape))
        return {"v": v, "t": 3, "o": "shape", "nt": True}
    # column layout: coordinates along axis -2, points along axis -1 (one row of the lattice at a time and all at once)
    for nm, rows in (("row-0", S[0]), ("row-mid", S[n // 2]), ("all", S)):
        try:
            Pc = np.asarray(spherical_to_projective(np.swapaxes(rows, -1, -2).copy(), column_vectors=True))
            Sc = np.asarray(projective_to_spherical(np.swapaxes(np.asarray(spherical_to_projective(rows)), -1, -2).copy(), column_vectors=True))
        except NameError as e:
            add(v, "point/column-layout/raises", "column_vectors=True (%s): %s: %s" % (nm, type(e).__name__, e))
            break
        want_P = np.swapaxes(np.asarray(spherical_to_projective(rows)), -1, -2)
        want_S = np.swapaxes(rows, -1, -2)
        if Pc.shape != want_P.shape or Sc.shape != want_S.shape:
            add(v, "point/column-layout/shape", "column_vectors=True (%s): shapes %r %r, expected %r %r" % (nm, Pc.shape, Sc.shape, want_P.shape, want_S.shape))
        elif not (np.allclose(Pc, want_P, atol=TOL, rtol=0, equal_nan=False) and np.max(np.abs(Sc - want_S)) <= TOL):
            add(v, "point/column-layout/value", "column_vectors=True (%s) differs from the transposed row-layout answer" % nm)
    nbad = 0
    for i in range(n):
        for j in range(n):
            z = cp1.from_sphere(S[i, j])
            hemi = "north" if S[i, j, 2] > 0 else "south"
            if not np.any(P[i, j] != 0) or not np.all(np.isfinite(P[i, j])) or not zclose(ext(P[i, j]), z):
                nbad += 1
                if nbad <= 3:
                    add(v, "point/roundtrip/sph-proj/lattice-" + hemi, "s=%r -> %r, expected z=%r" % (S[i, j], P[i, j], z))
            for arr, nm in ((S2, "sph-proj-sph"), (S3, "ctor-spherical")):
                if not np.all(np.isfinite(arr[i, j])) or np.max(np.abs(arr[i, j] - S[i, j])) > TOL:
                    nbad += 1
                    if nbad <= 3:
                        add(v, "point/roundtrip/%s/lattice-%s" % (nm, hemi), "s=%r comes back as %r" % (S[i, j], arr[i, j]))
    return {"v": v, "t": 3, "o": "lattice%d" % n, "nt": True}


# ==========================================================================================
# reading disks
# ==========================================================================================
def read_disk(rows):
    """(boundary circle, disk, boundary points, interior point) of one stored disk: the oracle's
    generalised circle through the three stored boundary points, on the side of the stored
    interior point.  ValueError when the stored data is degenerate."""
    b = [ext(rows[k]) for k in range(3)]
    q = ext(rows[3])
    C = cp1.circle_through(*b)
    return C, cp1.side_of(C, q), b, q


def observe(v, d, n, what, want=("cp", "ci", "fsd", "fsc")):
    """Observables of a (composite) disk with n units, each reshaped to (n, ...); a failed call
    is recorded once and yields None."""
    out = {"proj": np.asarray(d.proj_data).reshape(n, 4, 2)}
    t = 0
    if "cp" in want:
        ok, r = attempt(v, "circle_parameters/" + what, d.circle_parameters)
        t += 1
        out["cp"] = (np.asarray(r[0], float).reshape(n, 2), np.asarray(r[1], float).reshape(n)) if ok else None
    if "ci" in want:
        ok, r = attempt(v, "center_inside/" + what, d.center_inside)
        t += 1
        out["ci"] = np.asarray(r).reshape(n) if ok else None
    if "fsd" in want:
        ok, r = attempt(v, "fs_diameter/" + what, d.fs_diameter)
        t += 1
        out["fsd"] = np.asarray(r, float).reshape(n) if ok else None
    if "fsc" in want:
        ok, r = attempt(v, "fs_center/" + what, lambda: np.asarray(d.fs_center().projective_coords()))
        t += 1
        out["fsc"] = np.asarray(r).reshape(n, 2) if ok else None
    out["t"] = t
    return out


def check_reports(v, obs, i, G, cap, state, cls):
    """The observables of unit i describe the oracle disk G (kind "disk") / the cap."""
    side = "bounded" if G[3] else "contains-infinity"
    scale = 1.0 + abs(G[1]) + G[2]
    if obs.get("cp") is not None:
        c = complex(*obs["cp"][0][i])
        r = float(obs["cp"][1][i])
        if not (abs(c - G[1]) <= TOL * scale and abs(r - G[2]) <= TOL * scale):
            add(v, "circle_parameters/%s/%s" % (state, cls), "circle_parameters() = (%r, %r), the disk is bounded by |z - %r| = %r" % (
                c, r, G[1], G[2]))
    if obs.get("ci") is not None and bool(obs["ci"][i]) != G[3]:
        add(v, "center_inside/%s/%s" % (state, side), "center_inside() = %r for the disk %r" % (bool(obs["ci"][i]), G))
    if obs.get("fsd") is not None and not abs(float(obs["fsd"][i]) - cap[2]) <= TOL_FS:
        add(v, "fs_diameter/%s/%s" % (state, side), "fs_diameter() = %r, Fubini-Study diameter of %r is %r" % (
            float(obs["fsd"][i]), G, cap[2]))
    if obs.get("fsc") is not None:
        w = obs["fsc"][i]
        good = np.all(np.isfinite(w)) and np.any(w != 0)
        if good:
            s = cp1.to_sphere(ext(w))
            good = float(np.max(np.abs(s - cap[1]))) <= TOL_FS
        if not good:
            add(v, "fs_center/%s/%s" % (state, side), "fs_center() = %r = %r, Fubini-Study centre of %r is %r" % (
                w, ext(w) if np.any(w != 0) else None, G, cp1.from_sphere(cap[1])))


def same_circle_other_side(v, rows, G, want_inside, key, what):
    """Stored data `rows` lies on the boundary circle of G with its interior point inside
    (want_inside) or outside G."""
    C = cp1.boundary(G)
    scale = 1.0 + abs(G[1]) + G[2]
    for k in range(3):
        z = ext(rows[k])
        if not cp1.dist_to_circle(C, z) <= 1e-8 * (scale + (0 if is_inf(z) else abs(z))):
            add(v, key + "/boundary", "%s: boundary point %r is not on |z - %r| = %r" % (what, z, G[1], G[2]))
            return
    m = cp1.member(G, ext(rows[3]), 1e-8)
    if m is not want_inside:
        add(v, key + "/side", "%s: interior point %r %s the disk %r" % (
            what, ext(rows[3]), "lies in" if m else ("is on the boundary of" if m is None else "lies outside"), G))


# ==========================================================================================
# section 2: disks
# ==========================================================================================
def centre_class(metric, z):
    if metric == "fs":
        return "fs"
    if z == 0:
        return "affine/origin"
    if abs(abs(z) - 1.0) < 1e-12:
        return "affine/unit-centre"
    return "affine/non-unit-centre"


def expected_disk(metric, c, r):
    """The disk asked for, as (oracle disk of kind "disk", cap)."""
    if metric == "affine":
        E = ("disk", complex(c), float(r), True)
        return E, cp1.disk_to_cap(E)
    p = cp1.to_sphere(c)
    E = cp1.cap_to_disk(p, 2.0 * r)
    return E, ("cap", p, 2.0 * r)


def case_disk(case):
    from geometry_tools.complex_projective import CP1Disk
    v = []
    metric, kind, pack = case["metric"], case["kind"], case["pack"]
    cs = [Z(j) for j in case["cs"]]
    rs = [float(r) for r in case["rs"]]
    rep = Z(case.get("rep", [1.0, 0.0]))
    n = len(cs)
    if pack == "single":
        centre, rad = point_input(cs[0], kind, rep), rs[0]
        if kind != "cx_affine":
            centre = np.array(centre)
    else:
        centre = np.array([point_input(c, kind, rep) for c in cs])
        rad = rs[0] if pack == "scalar-radius" else np.array(rs)
    d = CP1Disk(centre, rad, radius_metric=metric, center_coords=kind)
    t = 1
    want_shape = () if pack == "single" else (n,)
    if tuple(d.shape) != want_shape or np.asarray(d.proj_data).shape != want_shape + (4, 2):
        add(v, "disk/shape/" + metric, "CP1Disk of %s centres: shape %r, data %r" % (pack, d.shape, np.asarray(d.proj_data).shape))
        return {"v": v, "t": t, "o": "shape", "nt": True}
    obs = observe(v, d, n, "constructed/%s" % pack)
    ok_c, comp = attempt(v, "complement/constructed/%s" % pack, d.complement)
    t += obs["t"] + 1
    obs_c = obs_cc = None
    if ok_c:
        obs_c = observe(v, comp, n, "complement/%s" % pack)
        ok_cc, cc = attempt(v, "complement/complement/%s" % pack, comp.complement)
        t += obs_c["t"] + 1
        if ok_cc:
            obs_cc = observe(v, cc, n, "double-complement/%s" % pack)
            t += obs_cc["t"]
    outs = set()
    for i in range(n):
        c, r = cs[i], rs[i if pack != "scalar-radius" else 0]
        cls = centre_class(metric, c)
        E, capE = expected_disk(metric, c, r)
        if metric == "fs":
            cls = "fs/" + ("bounded" if E[3] else "contains-infinity")
        # (a) the disk reports what it was built from
        reported = True
        if obs["cp"] is not None:
            cc_, rr_ = complex(*obs["cp"][0][i]), float(obs["cp"][1][i])
            scale = 1.0 + abs(E[1]) + E[2]
            tol = TOL if metric == "affine" else 1e-8
            if not (abs(cc_ - E[1]) <= tol * scale and abs(rr_ - E[2]) <= tol * scale):
                reported = False
                add(v, "circle_parameters/%s" % cls, "CP1Disk(%r, %r, radius_metric=%s, center_coords=%s).circle_parameters() = (%r, %r), expected (%r, %r)" % (
                    c, r, metric, kind, cc_, rr_, E[1], E[2]))
        try:
            C, G, b, q = read_disk(obs["proj"][i])
        except ValueError as e:
            add(v, "disk_data/degenerate/%s" % cls, "stored data %r: %s" % (obs["proj"][i], e))
            continue
        if G[0] != "disk":
            add(v, "disk_data/degenerate/%s" % cls, "stored boundary points %r are collinear" % (b,))
            continue
        if reported:
            same_circle_other_side(v, obs["proj"][i], E, True, "disk_data/%s" % cls, "constructed disk")
            if metric == "fs" and not zclose(q, c, 1e-8):
                add(v, "disk_data/%s/interior-point" % cls, "interior point %r is not the centre %r" % (q, c))
        # (b) everything else relative to the disk as stored (so that one defect has one key)
        cap = capE if (reported and G[3] == E[3]) else cp1.disk_to_cap(G)
        Gs = (E if (reported and G[3] == E[3]) else G)
        o2 = dict(obs)
        o2["cp"] = None if reported else obs["cp"]     # already compared with E above
        check_reports(v, o2, i, Gs, cap, "constructed", cls)
        if obs_c is not None:
            Gc = cp1.complement(Gs)
            capc = ("cap", -cap[1], math.pi - cap[2])
            same_circle_other_side(v, obs_c["proj"][i], Gs, False, "complement", "complement()")
            check_reports(v, obs_c, i, Gc, capc, "complement", cls)
        if obs_cc is not None:
            same_circle_other_side(v, obs_cc["proj"][i], Gs, True, "double_complement", "complement().complement()")
            check_reports(v, obs_cc, i, Gs, cap, "double-complement", cls)
        outs.add(cls)
    return {"v": v, "t": t, "o": "%s/%s/%s" % (pack, kind, ",".join(sorted(outs))), "nt": True}


def case_utils_cp1(case):
    """utils/cp1.py: affine centre of a Fubini-Study disk and back (bounded disks, centre != 0)."""
    from geometry_tools.utils import cp1 as ucp1
    v = []
    c, rho = Z(case["c"]), float(case["rho"])
    E = cp1.cap_to_disk(cp1.to_sphere(c), 2.0 * rho)
    got = complex(ucp1.fs_ctr_to_aff_ctr(c, rho))
    if not abs(got - E[1]) <= 1e-8 * (1 + abs(E[1])):
        add(v, "utils_cp1/fs_ctr_to_aff_ctr", "FS disk centre %r radius %r: affine centre %r, oracle %r" % (c, rho, got, E[1]))
    back = float(ucp1.aff_ctr_to_fs_ctr(E[1], E[2]))
    if not abs(back - abs(c)) <= 1e-8 * (1 + abs(c)):
        add(v, "utils_cp1/aff_ctr_to_fs_ctr", "affine disk (%r, %r): |FS centre| = %r, oracle %r" % (E[1], E[2], back, abs(c)))
    return {"v": v, "t": 2, "o": "%.1f" % rho, "nt": True}


# ==========================================================================================
# building disks for the Moebius and pair sections
# ==========================================================================================
ROW_SCALES = {"real": [1.0 + 0j, -1.0 + 0j, 2.5 + 0j, 0.5 + 0j],
              "cx": [1.0 + 0j, -1.0 + 0j, 2.0j, 0.5 - 0.5j]}


def data_rows(c, r, interior, phase=0.2, scales="real"):
    """Stored data (three boundary points, one interior point) of a disk, chosen by the harness:
    rows are homogeneous coordinates with different non-zero multipliers (real ones, or complex
    ones for the "-cx" routes: a purely imaginary w0 is what trips finding F8)."""
    sc = ROW_SCALES[scales]
    b = [c + r * cmath.exp(1j * (phase + 2 * math.pi * k / 3)) for k in range(3)]
    if interior == "centre":
        q = c + 0.3 * r * cmath.exp(2.0j)
    elif interior == "far":
        q = c + 3.7 * r * cmath.exp(0.9j)
    elif interior == "inf":
        q = INF
    else:
        raise ValueError(interior)
    rows = [[sc[k], sc[k] * b[k]] for k in range(3)]
    rows.append([0j, sc[3]] if is_inf(q) else [sc[3], sc[3] * q])
    return np.array(rows)


def build_disk(spec):
    """spec = {"route": .., "c": J, "r": float}; returns the library disk (shape ())."""
    from geometry_tools.complex_projective import CP1Disk
    route, c, r = spec["route"], Z(spec["c"]), float(spec["r"])
    if route == "ctor":
        return CP1Disk(c, r)
    if route == "ctor.complement()":
        return CP1Disk(c, r).complement()
    if route == "data":
        return CP1Disk(data_rows(c, r, "centre"))
    if route == "data-cx":
        return CP1Disk(data_rows(c, r, "centre", scales="cx"))
    if route == "data-inf-cx":
        return CP1Disk(data_rows(c, r, "inf", scales="cx"))
    if route == "data.complement()":
        return CP1Disk(data_rows(c, r, "centre")).complement()
    if route == "data-inf":
        return CP1Disk(data_rows(c, r, "inf"))
    if route == "data-far":
        return CP1Disk(data_rows(c, r, "far"))
    if route == "fs":
        return CP1Disk(np.array([float(x) for x in cp1.to_sphere(c)]), r, radius_metric="fs", center_coords="spherical")
    raise ValueError(route)


def route_class(route):
    if route.endswith("complement()"):
        return "complement()"
    if route in ("data-inf", "data-far"):
        return "unbounded"
    if route.endswith("-cx"):
        return "complex-multipliers"
    return route if route == "fs" else "bounded"


# ==========================================================================================
# section 3: Moebius images
# ==========================================================================================
UNITS = [0j, 1 + 0j, -1 + 0j, 1j, -1j]


def matrices():
    out = []
    for a, b, c, d in itertools.product(UNITS, repeat=4):
        if a * d - b * c != 0:
            out.append([[J(a), J(b)], [J(c), J(d)]])
    return out


def Mz(m):
    return [[Z(x) for x in row] for row in m]


def check_image(v, M, G, rows, cp, ci, prefix):
    """rows: stored data of the image disk; G: oracle source disk.  Returns the image class."""
    pole = cp1.pole_row(M)
    pm = float("inf") if is_inf(pole) else cp1.dist_to_circle(cp1.boundary(G), pole)
    if 1e-12 < pm < 0.02:
        return "ill-conditioned"                      # excluded by the lattice; never demanded
    D = cp1.mobius_disk_row(M, G)
    C = cp1.boundary(D)
    if D[0] == "half":
        icls = "half-plane"
        scale = 1.0 + abs(D[1])
    else:
        icls = "bounded" if D[3] else "contains-infinity"
        scale = 1.0 + abs(D[1]) + D[2]
    if not (np.all(np.isfinite(rows)) and all(np.any(rows[k] != 0) for k in range(4))):
        add(v, prefix + "not-a-point/" + icls, "image data %r" % (rows,))
        return icls
    for k in range(3):
        z = ext(rows[k])
        if not cp1.dist_to_circle(C, z) <= 1e-8 * (scale + (0 if is_inf(z) else abs(z))):
            add(v, prefix + "boundary/" + icls, "M=%r: image boundary point %r is not on the image circle %r of %r" % (M, z, C, G))
            break
    m = cp1.member(D, ext(rows[3]), 1e-8)
    if m is False:
        add(v, prefix + "side/" + icls, "M=%r: image interior point %r is outside the image %r of %r" % (M, ext(rows[3]), D, G))
    if D[0] == "disk":
        if cp is not None:
            c, r = complex(*cp[0]), float(cp[1])
            if not (abs(c - D[1]) <= 1e-8 * scale and abs(r - D[2]) <= 1e-8 * scale):
                add(v, prefix + "circle_parameters/" + icls, "M=%r: image of %r reports circle (%r, %r), oracle (%r, %r)" % (
                    M, G, c, r, D[1], D[2]))
        if ci is not None and bool(ci) != D[3]:
            add(v, prefix + "center_inside/" + icls, "M=%r: image of %r: center_inside() = %r, oracle image %r" % (M, G, bool(ci), D))
    return icls


def case_mobius(case):
    """One disk, a list of matrices; each matrix applied on its own and (mode "stack") all at
    once as one composite Transformation."""
    from geometry_tools import projective
    v = []
    d = build_disk(case["disk"])
    rcls = route_class(case["disk"]["route"])
    t = 1
    try:
        C, G, b, q = read_disk(np.asarray(d.proj_data))
    except ValueError as e:
        add(v, "disk_data/degenerate/" + rcls, "stored data %r: %s" % (d.proj_data, e))
        return {"v": v, "t": t, "o": "degenerate", "nt": True}
    if G[0] != "disk":
        return {"v": v, "t": t, "o": "source-is-half-plane", "nt": False}
    Ms = [Mz(m) for m in case["Ms"]]
    outs = set()
    if case["mode"] == "single":
        for M in Ms:
            T = projective.Transformation(np.array(M))
            img = T @ d
            t += 1
            rows = np.asarray(img.proj_data)
            if rows.shape != (4, 2):
                add(v, "mobius/shape", "image data shape %r" % (rows.shape,))
                continue
            D = None
            pole = cp1.pole_row(M)
            on_circle = (not is_inf(pole)) and cp1.dist_to_circle(C, pole) <= 1e-12
            cp = ci = None
            if not on_circle:
                ok, cp = attempt(v, "circle_parameters/image/" + rcls, img.circle_parameters)
                ok2, ci = attempt(v, "center_inside/image/" + rcls, img.center_inside)
                t += 2
                cp = (np.asarray(cp[0], float).reshape(2), float(np.asarray(cp[1]))) if ok else None
                ci = bool(np.asarray(ci)) if ok2 else None
            outs.add(check_image(v, M, G, rows, cp, ci, "mobius/"))
    else:
        keep = []
        for M in Ms:
            pole = cp1.pole_row(M)
            if is_inf(pole) or cp1.dist_to_circle(C, pole) > 0.02:
                keep.append(M)
        T = projective.Transformation(np.array(keep))
        img = T @ d
        t += 1
        rows = np.asarray(img.proj_data)
        if rows.shape != (len(keep), 4, 2):
            add(v, "mobius-stack/shape", "image data shape %r for %d matrices" % (rows.shape, len(keep)))
        else:
            obs = observe(v, img, len(keep), "image-stack/" + rcls, want=("cp", "ci"))
            t += obs["t"]
            for k, M in enumerate(keep):
                cp = (obs["cp"][0][k], obs["cp"][1][k]) if obs["cp"] is not None else None
                ci = obs["ci"][k] if obs["ci"] is not None else None
                outs.add(check_image(v, M, G, rows[k], cp, ci, "mobius-stack/"))
    return {"v": v, "t": t, "o": "%s/%s/%s" % (case["mode"], rcls, ",".join(sorted(outs))), "nt": len(outs) > 0}


# ==========================================================================================
# section 4: contains / intersects
# ==========================================================================================
FAMILY = [
    (0j, 2.0),                 # 0  big
    (0.3 + 0.2j, 1.0),         # 1  inside 0
    (0.5 + 0.1j, 0.3),         # 2  inside 1
    (-1.2 + 0.5j, 0.9),        # 3  crosses 0 and 1
    (3.5 - 1.0j, 0.8),         # 4  outside 0
    (3.4 - 1.2j, 2.2),         # 5  contains 4, crosses 0
    (-0.9 - 1.1j, 0.4),        # 6  inside 0, outside 1
    (0.1 + 4.0j, 1.1),         # 7  far
    (0.2 - 0.1j, 6.0),         # 8  contains everything
    (0.001 + 0j, 0.12),        # 9  tiny, inside 0 and 1, outside 2
    (2.2 + 2.0j, 1.5),         # 10 crosses 0 and 5
    (-3.0 - 3.0j, 0.7),        # 11 far, inside 8
]
ROUTES = ["ctor", "data", "ctor.complement()", "data.complement()", "data-inf", "data-far"]


# ==========================================================================================
# section: histories - an answer depends on the disk's current data only (mc/diffhist.py)
# ==========================================================================================
HIST_OPS = ["query", "move0", "move1", "complement", "rebuild", "index0", "setitem-0", "setitem-last", "setitem-all"]
# setitem-*: in-place item assignment of another disk (case["donor"]) into the object: disks[0] = donor, disks[-1] = donor
# (composites only) and disks[...] = donor (every member; also defined for a single disk).  These write into proj_data
# without replacing the array, so anything remembered per data array is stale afterwards.
HIST_MATS = [[[1 + 0j, 1j], [0j, 1 + 0j]], [[2 + 0j, 1 + 0j], [1j, 1 + 0j]]]     # a translation and a loxodromic-type map


def _disk_queries(d):
    return [("circle_parameters", d.circle_parameters), ("center_inside", d.center_inside),
            ("fs_center", d.fs_center), ("fs_diameter", d.fs_diameter),
            ("boundary_points", d.boundary_points), ("interior_point", d.interior_point)]


def case_history(case):
    from geometry_tools import projective
    from geometry_tools.complex_projective import CP1Disk
    from mc import diffhist
    specs, ops = case["disks"], case["ops"]
    ds = [build_disk(sp) for sp in specs]
    d = ds[0] if len(ds) == 1 else CP1Disk(np.array([np.asarray(x.proj_data) for x in ds]))
    donor = build_disk(case["donor"]) if case.get("donor") else None
    v, t = [], 1

    def ask(obj):
        out = []
        for nm, f in _disk_queries(obj):
            ok, r = attempt([], nm, f)
            out.append((nm, r if ok else "raised"))
        return out
    def differential(obj, done):
        # every query of the object against the same query of a fresh disk built from a copy of the current data
        fresh = CP1Disk(np.array(obj.proj_data))
        n = 0
        for (nm, got), (_, want) in zip(ask(obj), ask(fresh)):
            n += 2
            if isinstance(got, str) or isinstance(want, str):
                same = isinstance(got, str) and isinstance(want, str)
            else:
                same = diffhist.same_result(diffhist.flatten_result(got), diffhist.flatten_result(want), nm)
            if not same:
                add(v, "history/%s/after-%s" % (nm, done[-1] if done else "construct"),
                    "disk(s) %r after %r: %s = %r, on a fresh disk with the same data %r" % (specs, done, nm, got, want))
                break
        return n
    for k, op in enumerate(ops):
        t += 1
        if op == "query":
            # a query in the middle of a history is held to the same standard as the final one
            prev = [o for o in ops[:k] if o != "query"]
            t += differential(d, prev)
            if v:
                return {"v": v, "t": t, "o": "%d|%s|%d" % (len(specs), "-".join(ops), len(v)), "nt": True}
        elif op.startswith("setitem"):
            if donor is None or (op != "setitem-all" and len(d.shape) == 0):
                return {"v": [], "t": t, "o": "n/a", "nt": False}
            if op == "setitem-0":
                d[0] = donor
            elif op == "setitem-last":
                d[-1] = donor
            else:
                d[...] = donor
        elif op in ("move0", "move1"):
            d = projective.Transformation(np.array(HIST_MATS[int(op[-1])])) @ d
        elif op == "complement":
            d = d.complement()
        elif op == "rebuild":
            d = CP1Disk(d)
        elif op == "index0":
            if len(d.shape) == 0:
                return {"v": [], "t": t, "o": "n/a", "nt": False}
            d = d[0]
    if type(d) is not CP1Disk:
        return {"v": [{"key": "history/type", "msg": "after %r the object is a %s" % (ops, type(d).__name__)}], "t": t}
    t += differential(d, [o for o in ops if o != "query"] or ops)
    return {"v": v, "t": t, "o": "%d|%s|%d" % (len(specs), "-".join(ops), len(v)), "nt": len(ops) > 0}


def history_cases(seed):
    seqs = [list(x) for dpt in (2, 3) for x in itertools.product(HIST_OPS, repeat=dpt)
            if "query" in x[:-1] and x[-1] != "query"]
    specs = mobius_disks(seed, True)
    picks = [specs[i % len(specs)] for i in (0, 3, 7)]
    roots = [[picks[0]], [picks[1]], [picks[0], picks[2]], [picks[2], picks[1], picks[0]]]
    # the disk assigned by the setitem ops: the first spec (in a fixed stride through the list) that is none of the roots'
    donor = next(specs[i % len(specs)] for i in range(11, 11 + len(specs)) if specs[i % len(specs)] not in picks)
    for r in roots:
        for ops in seqs:
            if len(r) == 1 and any(o in ("index0", "setitem-0", "setitem-last") for o in ops):
                continue
            yield {"disks": r, "ops": ops, "donor": donor}


def _frac(x):
    return x - math.floor(x)


def family(seed):
    """The 12-disk family moved by a similarity z -> lam z + t chosen by the seed (|lam| >= 1, so
    every margin is at least the margin of the seed-0 family)."""
    if seed % 16 == 0:
        lam, t = 1.0 + 0j, 0j
    else:
        s = seed % 16
        lam = (1.0 + 0.15 * _frac(s * math.sqrt(2))) * cmath.exp(2j * math.pi * _frac(s * math.sqrt(3)))
        t = complex(_frac(s * math.sqrt(5)) - 0.5, _frac(s * math.sqrt(7)) - 0.5)
    return [(lam * c + t, abs(lam) * r) for c, r in FAMILY]


def family_margin(fam):
    return min(cp1.pair_margin(("disk", a[0], a[1], True), ("disk", b[0], b[1], True))
               for a, b in itertools.permutations(fam, 2))


def stored(d):
    """Oracle disk of a library disk (shape ()), or None when its data is degenerate."""
    try:
        C, G, b, q = read_disk(np.asarray(d.proj_data))
    except ValueError:
        return None
    return G if G[0] == "disk" else None


def side_name(G):
    return "bounded" if G[3] else "unbounded"


def case_pair(case):
    """Two single disks: contains and intersects, elementwise and pairwise."""
    v = []
    A, B = build_disk(case["A"]), build_disk(case["B"])
    ra, rb = route_class(case["A"]["route"]), route_class(case["B"]["route"])
    GA, GB = stored(A), stored(B)
    t = 2
    if GA is None or GB is None:
        add(v, "disk_data/degenerate/pair", "stored data %r / %r" % (A.proj_data, B.proj_data))
        return {"v": v, "t": t, "o": "degenerate", "nt": True}
    if cp1.pair_margin(GA, GB) < MARGIN:
        return {"v": v, "t": t, "o": "not-general-position", "nt": False}
    contains, intersects, info = cp1.decide_pair(GA, GB)
    cls = "%s-vs-%s" % (side_name(GA), side_name(GB))
    for meth, want in (("contains", contains), ("intersects", intersects)):
        for mode, shp in (("elementwise", ()), ("pairwise", (1, 1))):
            ok, got = attempt(v, "%s-%s/%s-vs-%s" % (meth, mode, ra, rb),
                              lambda: np.asarray(getattr(A, meth)(B, broadcast=mode)))
            t += 1
            if not ok:
                continue
            if got.shape != shp or got.dtype != bool:
                add(v, "%s/%s/shape" % (meth, mode), "result shape %r dtype %r for two single disks" % (got.shape, got.dtype))
                continue
            if bool(got.reshape(-1)[0]) != want:
                add(v, "%s/%s/%s" % (meth, mode, cls), "%r.%s(%r) = %r, set-theoretic answer %r (%s-vs-%s)" % (
                    GA, meth, GB, bool(got.reshape(-1)[0]), want, ra, rb))
    return {"v": v, "t": t, "o": "%s/%d%d/%s" % (cls, contains, intersects, "w" if info["probe_both"] else "-"), "nt": True}


def case_pair_arrays(case):
    """Composite disks: A, B lists of [family index, route]; elementwise needs broadcastable
    shapes (here equal lengths, a 2-d reshape, or a single disk against an array)."""
    from geometry_tools.complex_projective import CP1Disk
    v = []
    fam = family(case["seed"])

    def mk(lst):
        ds = [build_disk({"route": r, "c": J(fam[i][0]), "r": fam[i][1]}) for i, r in lst]
        return ds, [stored(d) for d in ds]
    dA, GA = mk(case["A"])
    dB, GB = mk(case["B"])
    t = len(dA) + len(dB)
    if any(g is None for g in GA + GB):
        add(v, "disk_data/degenerate/pair", "degenerate stored data in a composite")
        return {"v": v, "t": t, "o": "degenerate", "nt": True}
    mode = case["mode"]
    shapeA, shapeB = case.get("shapeA"), case.get("shapeB")

    def composite(ds, shape):
        if shape == []:
            return ds[0]
        c = CP1Disk(np.array([np.asarray(d.proj_data) for d in ds]))
        if shape is not None:
            c = CP1Disk(np.asarray(c.proj_data).reshape(tuple(shape) + (4, 2)))
        return c
    cA, cB = composite(dA, shapeA), composite(dB, shapeB)
    rcls = case["label"]
    nA, nB = len(dA), len(dB)
    if mode == "pairwise":
        idx = [(i, j) for i in range(nA) for j in range(nB)]
        want_shape = (nA, nB)
    else:
        n = max(nA, nB)
        idx = [(i if nA > 1 else 0, i if nB > 1 else 0) for i in range(n)]
        want_shape = tuple(shapeA if (shapeA not in (None, [])) else (shapeB if shapeB not in (None, []) else [n]))
    outs = set()
    for meth in ("contains", "intersects"):
        ok, got = attempt(v, "%s-%s/composite" % (meth, mode),
                          lambda: np.asarray(getattr(cA, meth)(cB, broadcast=mode)), note=rcls)
        t += 1
        if not ok:
            continue
        if got.shape != want_shape or got.dtype != bool:
            add(v, "%s/%s/shape" % (meth, mode), "result shape %r dtype %r, expected bool %r" % (got.shape, got.dtype, want_shape))
            continue
        flat = got.reshape(-1)
        for k, (i, j) in enumerate(idx):
            if case["A"][i][0] == case["B"][j][0] or cp1.pair_margin(GA[i], GB[j]) < MARGIN:
                continue
            contains, intersects, info = cp1.decide_pair(GA[i], GB[j])
            want = contains if meth == "contains" else intersects
            cls = "%s-vs-%s" % (side_name(GA[i]), side_name(GB[j]))
            outs.add("%s%d" % (cls, want))
            if bool(flat[k]) != want:
                add(v, "%s/%s-composite/%s" % (meth, mode, cls), "entry %r: %r.%s(%r) = %r, set-theoretic answer %r (%s)" % (
                    (i, j), GA[i], meth, GB[j], bool(flat[k]), want, rcls))
    return {"v": v, "t": t, "o": "%s/%s/%d" % (mode, rcls, len(outs)), "nt": len(outs) > 0}


# ==========================================================================================
# enumeration
# ==========================================================================================
POINTS = [0j, 1 + 0j, -1 + 0j, 1j, -1j, 0.5 + 0.5j, 3 - 2j, 1e-3 + 0j, INF]
POINTS_EXTRA = [1e6 * cmath.exp(0.3j), 1e-6 * cmath.exp(-1.1j), -2.0 + 0.5j, 1e3 + 0j]
REPS = [1.0 + 0j, -1.0 + 0j, 2.5 + 0j, 1j, 0.3 - 0.4j]
AFF_RADII = [0.2, 0.5, 1.3]
FS_RADII = [0.2, 0.6, 1.2]


def seed_points(seed):
    s = seed % 16
    return [(0.37 + 1.9 * _frac((s + 1) * math.sqrt(2))) * cmath.exp(2j * math.pi * _frac((s + 1) * math.sqrt(3))),
            (1.0 + 2.5 * _frac((s + 1) * math.sqrt(5))) * cmath.exp(2j * math.pi * _frac((s + 1) * math.sqrt(7)))]


def point_cases(seed, quick):
    pts = POINTS + POINTS_EXTRA + seed_points(seed)
    cases = []
    for kind in KINDS:
        reps = REPS if kind == "projective" else REPS[:1]
        for rep in reps:
            fin = [z for z in pts if not (is_inf(z) and kind in ("cx_affine", "real_affine"))]
            for z in fin:
                cases.append({"kind": kind, "zs": [J(z)], "shape": [], "rep": J(rep)})
            cases.append({"kind": kind, "zs": [J(z) for z in fin], "shape": [len(fin)], "rep": J(rep)})
            sub = fin[:12]
            cases.append({"kind": kind, "zs": [J(z) for z in sub], "shape": [3, 4], "rep": J(rep)})
            cases.append({"kind": kind, "zs": [J(z) for z in sub[:6]], "shape": [2, 1, 3], "rep": J(rep)})
    return cases


def disk_cases(seed, quick):
    centres = [z for z in POINTS if not is_inf(z)] + seed_points(seed)
    if not quick:
        centres += [-2.0 + 0.5j, 0.6 - 0.8j, 10.0 + 0j]
    cases = []
    for kind in KINDS:
        reps = (REPS[:1] + REPS[3:4]) if kind == "projective" else REPS[:1]
        for rep in reps:
            # affine radius
            grid = [(c, r) for c in centres for r in AFF_RADII]
            for c, r in grid:
                cases.append({"metric": "affine", "kind": kind, "pack": "single", "cs": [J(c)], "rs": [r], "rep": J(rep)})
            cases.append({"metric": "affine", "kind": kind, "pack": "array", "cs": [J(c) for c, r in grid],
                          "rs": [r for c, r in grid], "rep": J(rep)})
            for r in AFF_RADII:
                cases.append({"metric": "affine", "kind": kind, "pack": "scalar-radius", "cs": [J(c) for c in centres],
                              "rs": [r], "rep": J(rep)})
            # Fubini-Study radius: centres may be oo unless the kind is affine
            fc = centres + ([INF] if kind in ("spherical", "projective") else [])
            grid = [(c, r) for c in fc for r in FS_RADII
                    if cp1.cap_pole_margin(cp1.to_sphere(c), 2 * r) > 0.1]
            for c, r in grid:
                cases.append({"metric": "fs", "kind": kind, "pack": "single", "cs": [J(c)], "rs": [r], "rep": J(rep)})
            cases.append({"metric": "fs", "kind": kind, "pack": "array", "cs": [J(c) for c, r in grid],
                          "rs": [r for c, r in grid], "rep": J(rep)})
            for r in FS_RADII:
                cs = [c for c in fc if cp1.cap_pole_margin(cp1.to_sphere(c), 2 * r) > 0.1]
                cases.append({"metric": "fs", "kind": kind, "pack": "scalar-radius", "cs": [J(c) for c in cs],
                              "rs": [r], "rep": J(rep)})
    return cases


def mobius_disks(seed, quick):
    """Disk specs for the Moebius section, each at distance >= 0.05 from every pole of the
    matrix alphabet (0, +-1, +-i) unless the pole is exactly on the circle (half-plane class)."""
    centres = [z for z in POINTS if not is_inf(z)] + seed_points(seed)
    specs = []
    for c in centres:
        for r in AFF_RADII:
            specs.append({"route": "ctor", "c": J(c), "r": r})
            specs.append({"route": "data-cx" if len(specs) % 4 == 1 else "data", "c": J(c), "r": r})
    for c in centres + [INF]:
        for r in FS_RADII:
            if cp1.cap_pole_margin(cp1.to_sphere(c), 2 * r) > 0.1:
                specs.append({"route": "fs", "c": J(c), "r": r})
    for c, r in [(0.5 + 0.5j, 0.5), (3 - 2j, 1.3), (-1 + 0j, 0.2)]:
        specs.append({"route": "data-inf", "c": J(c), "r": r})
        specs.append({"route": "data-far", "c": J(c), "r": r})
        specs.append({"route": "data.complement()", "c": J(c), "r": r})
    # half-plane class: circles through poles of the alphabet
    specs.append({"route": "data", "c": J(0.5 + 0j), "r": 0.5, "tag": "half-plane"})
    specs.append({"route": "data-cx", "c": J(0j), "r": 1.0, "tag": "half-plane"})
    specs.append({"route": "data-inf", "c": J(0.5j), "r": 0.5, "tag": "half-plane"})
    poles = [0j, 1 + 0j, -1 + 0j, 1j, -1j]
    keep = []
    for s in specs:
        if s["route"] == "fs":
            E = cp1.cap_to_disk(cp1.to_sphere(Z(s["c"])), 2 * s["r"])
            c, r = E[1], E[2]
        else:
            c, r = Z(s["c"]), s["r"]
        ds = [abs(abs(p - c) - r) for p in poles]
        if all(d >= 0.05 or d <= 1e-12 for d in ds):
            keep.append(s)
    if quick:
        # every route, every radius; a third of the centres per route (all of them in thorough)
        keep = [s for k, s in enumerate(keep)
                if s["route"] not in ("ctor", "data", "data-cx", "fs") or "tag" in s or k % 3 == seed % 3]
    return keep


def pair_array_cases(seed):
    n = len(FAMILY)
    allp = [(i, j) for i in range(n) for j in range(n) if i != j]
    cases = []

    def lab(ra, rb):
        return "%s-vs-%s" % (ra, rb)
    pats = {
        "bounded": lambda i, k: "data",
        "ctor": lambda i, k: "ctor",
        "unbounded": lambda i, k: "data-inf" if (i + k) % 2 else "data-far",
        "mixed": lambda i, k: ["data", "data-inf", "ctor", "data-far"][(i + 2 * k + (k // 7)) % 4],
        "mixed-cx": lambda i, k: ["data-cx", "data-inf-cx", "data", "data-inf"][(i + k + (k // 5)) % 4],
        "complement()": lambda i, k: "data.complement()",
        "mixed-complement()": lambda i, k: ["data", "data.complement()", "ctor.complement()"][(i + k + (k // 5)) % 3],
    }
    for pa in pats:
        for pb in pats:
            A = [[i, pats[pa](i, k)] for k, (i, j) in enumerate(allp)]
            B = [[j, pats[pb](j, k + 1)] for k, (i, j) in enumerate(allp)]
            cases.append({"mode": "elementwise", "seed": seed, "A": A, "B": B, "label": lab(pa, pb)})
            cases.append({"mode": "elementwise", "seed": seed, "A": A[:120], "B": B[:120], "shapeA": [10, 12],
                          "shapeB": [10, 12], "label": lab(pa, pb) + "/2d"})
            PA = [[i, pats[pa](i, i)] for i in range(n)]
            PB = [[j, pats[pb](j, j + 1)] for j in range(n)]
            cases.append({"mode": "pairwise", "seed": seed, "A": PA, "B": PB, "label": lab(pa, pb)})
            cases.append({"mode": "pairwise", "seed": seed, "A": PA[:5], "B": PB[3:], "label": lab(pa, pb) + "/5x9"})
            cases.append({"mode": "pairwise", "seed": seed, "A": PA[:6], "B": PB, "shapeA": [2, 3], "label": lab(pa, pb) + "/2d"})
            # one disk against an array (NumPy broadcasting of the composite shapes)
            for i0 in (0, 3):
                cases.append({"mode": "elementwise", "seed": seed, "A": [PA[i0]], "shapeA": [], "B": PB,
                              "label": lab(pa, pb) + "/one-vs-array"})
                cases.append({"mode": "elementwise", "seed": seed, "A": PA, "B": [PB[i0]], "shapeB": [],
                              "label": lab(pa, pb) + "/array-vs-one"})
    return cases


def run(ctx):
    # the full exploration takes ~11 s on 16 cores, so the quick tier runs the thorough bounds as well
    q = False
    seed = ctx.seed
    only = getattr(ctx, "only", None)

    def on(name):
        return not only or any(name.startswith(o) for o in only)
    ctx.rule = ("product enumeration: (point, input kind, homogeneous multiplier, packaging); (centre, radius, metric, "
                "centre kind, packaging); (disk, Gaussian-integer matrix); (ordered pair of family disks, way of building "
                "each, broadcast mode).  A case is non-trivial when at least one library result was compared with the "
                "oracle (pairs: the stored disks are in general position; Moebius: at least one image class evaluated)")
    ctx.assume("homogeneous coordinates are non-zero rows [w0, w1], z = w1/w0, oo = [0, 1]; spherical inputs are unit vectors")
    ctx.assume("lattice coordinates are floats / complex floats (never Python ints)")
    ctx.assume("affine-metric disks have a finite centre and radius > 0; Fubini-Study radii lie in (0, pi/2) and the "
               "boundary of the disk stays at spherical angle > 0.1 from oo (circle_parameters is an affine notion)")
    ctx.assume("Moebius matrices are invertible; circle_parameters / center_inside of an image are demanded only when the "
               "pole of the matrix is at distance >= 0.05 from the boundary circle; when the pole is exactly on the circle "
               "(image = half-plane) only boundary points and the side of the interior point are demanded")
    ctx.assume("contains / intersects are demanded only for pairs in general position: distance from tangency and from "
               "equal boundaries >= %.2f (measured on the disks as stored); a disk is never compared with itself or "
               "with its own complement" % MARGIN)
    ctx.assume("set-theoretic answers refer to the disk as stored (circle through the three boundary points, side of the "
               "interior point), so that the constructor defect F9 is reported by the disks section only")
    ctx.tolerances["TOL"] = "1e-9 (1+|value|): coordinates, circle parameters of constructed disks (well conditioned)"
    ctx.tolerances["TOL_IMAGE"] = ("1e-8 (1+|c|+r): image circles under matrices with entries in {0,+-1,+-i}, pole at distance "
                                   ">= 0.05 from the circle (amplification <= 1/0.05^2); realistic defects are O(1)")
    ctx.tolerances["TOL_FS"] = "1e-7: fs_center / fs_diameter (arctan differences, tan of half sums, oracle arccos)"
    ctx.tolerances["membership"] = "a point within 1e-8 (scale) of a boundary circle is neither inside nor outside"

    fam = family(seed)
    mg = family_margin(fam)
    if mg < MARGIN:
        ctx.harness_errors.append("12-disk family not in general position: margin %.3g" % mg)
        return

    if on("points"):
        pc = point_cases(seed, q)
        ctx.product("points", "checks.c20:case_point", pc, chunk=8,
                    domains={"points": [repr(z) for z in POINTS + POINTS_EXTRA + seed_points(seed)], "kinds": KINDS,
                             "projective multipliers": [repr(r) for r in REPS],
                             "packaging": ["single", "(N,)", "(3,4)", "(2,1,3)"]})
        ctx.product("points-sphere-lattice", "checks.c20:case_sphere_lattice", [{"n": 41}] + ([] if q else [{"n": 97}]),
                    chunk=1, domains={"lattice": "colatitude x longitude, poles included"})
    if on("disks"):
        dc = disk_cases(seed, q)
        ctx.product("disks", "checks.c20:case_disk", dc, chunk=4,
                    domains={"centres": "POINTS (finite) + 2 seed points; oo too for Fubini-Study spherical/projective",
                             "affine radii": AFF_RADII, "FS radii": FS_RADII, "centre kinds": KINDS,
                             "packaging": ["single", "array (centres x radii)", "array centres, scalar radius"]})
        uc = [{"c": J(c), "rho": rho} for c in POINTS[1:8] + seed_points(seed) for rho in (0.2, 0.6)
              if math.atan(abs(c)) + rho < math.pi / 2 - 0.1]
        ctx.product("utils-cp1", "checks.c20:case_utils_cp1", uc, chunk=8,
                    domains={"centres": "non-zero lattice centres", "FS radii": [0.2, 0.6], "note": "bounded disks only"})
    if on("moebius"):
        Ms = matrices()
        specs = mobius_disks(seed, q)
        mc = []
        for s in specs:
            for ch in range(0, len(Ms), 24):
                mc.append({"disk": s, "Ms": Ms[ch:ch + 24], "mode": "single"})
            for ch in range(0, len(Ms), 96):
                mc.append({"disk": s, "Ms": Ms[ch:ch + 96], "mode": "stack"})
        ctx.product("moebius", "checks.c20:case_mobius", mc, chunk=2,
                    domains={"matrices": "all %d matrices with entries in {0,+-1,+-i}, det != 0" % len(Ms),
                             "disks": len(specs), "routes": sorted({s["route"] for s in specs}),
                             "modes": ["one Transformation per matrix", "one composite Transformation per 96 matrices"]})
    if on("histories"):
        ctx.product("histories", "checks.c20:case_history", list(history_cases(seed)), chunk=16,
                    domains={"ops": HIST_OPS, "sequences": "all op sequences of length 2..3 with a query before the last (non-query) op",
                             "roots": "two single disks, one composite (2,) disk and one composite (3,) disk",
                             "setitem": "disks[0] = donor, disks[-1] = donor (composites), disks[...] = donor (all roots); donor = one more disk of the alphabet",
                             "queries": "every 'query' op and the final state are compared with the oracle",
                             "oracle": "the same query on a fresh CP1Disk built from the current data (mc/diffhist.py)"})
    if on("moebius") and not q:
        # thorough: products of two alphabet matrices (Gaussian-integer entries of modulus <= 2,
        # poles at new places), applied as composite Transformations
        Ms = matrices()
        prods = []
        seen = set()
        for m1 in Ms:
            for m2 in Ms:
                A, B = np.array(Mz(m1)), np.array(Mz(m2))
                P = A @ B
                key = tuple((int(round(x.real)), int(round(x.imag))) for x in P.reshape(-1))
                if key not in seen:
                    seen.add(key)
                    prods.append([[J(P[0, 0]), J(P[0, 1])], [J(P[1, 0]), J(P[1, 1])]])
        specs2 = [s for k, s in enumerate(mobius_disks(seed, False)) if k % 3 == seed % 3 or "tag" in s]
        mc2 = []
        for s in specs2:
            for ch in range(0, len(prods), 96):
                mc2.append({"disk": s, "Ms": prods[ch:ch + 96], "mode": "stack"})
            for ch in range(0, len(prods), 960):
                mc2.append({"disk": s, "Ms": prods[ch:ch + 24], "mode": "single"})
        ctx.product("moebius-products", "checks.c20:case_mobius", mc2, chunk=4,
                    domains={"matrices": "%d distinct products M1 M2 of two alphabet matrices" % len(prods),
                             "disks": len(specs2)})
    if on("pairs"):
        n = len(fam)
        pcs = []
        for i in range(n):
            for j in range(n):
                if i == j:
                    continue
                for ra in ROUTES:
                    for rb in ROUTES:
                        pcs.append({"A": {"route": ra, "c": J(fam[i][0]), "r": fam[i][1]},
                                    "B": {"route": rb, "c": J(fam[j][0]), "r": fam[j][1]}})
        if not q:
            # thorough: the family under two more similarities (other directions of the centre line)
            for extra in (seed + 5, seed + 11):
                f2 = family(extra)
                for i in range(n):
                    for j in range(n):
                        if i != j:
                            for ra in ROUTES:
                                for rb in ROUTES:
                                    pcs.append({"A": {"route": ra, "c": J(f2[i][0]), "r": f2[i][1]},
                                                "B": {"route": rb, "c": J(f2[j][0]), "r": f2[j][1]}})
        ctx.product("pairs-single", "checks.c20:case_pair", pcs, chunk=32,
                    domains={"family": "12 disks, general position margin %.3f" % mg, "ordered pairs": n * (n - 1),
                             "routes": ROUTES, "modes": ["elementwise", "pairwise"], "methods": ["contains", "intersects"]})
        ac = pair_array_cases(seed)
        ctx.product("pairs-composite", "checks.c20:case_pair_arrays", ac, chunk=2,
                    domains={"route patterns": len({c["label"].split("/")[0] for c in ac}), "shapes": ["(132,)x(132,)", "(10,12)x(10,12)", "()x(12,)", "(12,)x()",
                                                            "pairwise 12x12", "pairwise 5x9", "pairwise (2,3)x12"]})
