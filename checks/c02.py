"""C02 - every isometry the library builds preserves the Minkowski form and distances.

Engine P: every generator of every constructor alphabet on its own (with its inverse).
(Coxeter generators also from a group object that was first asked for another representation -
diagonalised Tits-Vinberg with non-default parameters, S C S, canonical, ... - before hyperbolic_rep().)
Engine E: Cayley-graph BFS over words in a reduced generator alphabet and inverses; a history is
a list of [generator descriptor, exponent]; the case function rebuilds the isometries with the
real constructors, composes them with `@` / `.inv()` and evaluates the invariants.
Engine P (composites): every vectorised constructor applied to COMPOSITE inputs of every listed batch
shape (incl. square grids (2,2), (3,3), (4,4) and shapes with unit axes); every member of the composite
isometry - and of its inverse / elementwise products - satisfies the invariants of a single isometry.
Engine P (hostile caller): the program first overwrites, in place, every helper array the library
hands out (forms, origin / identity / base-tangent data, coordinates, generator matrices of a
representation, matrices of isometries built earlier, returned inverses / images), then builds the
generators of the reduced alphabet again: the constructors must be unaffected.
The oracle is the definition: M J M^T = J for the row-convention matrix M, oracle distances of the
lattice (mc/oracle/hyp.py) before = library distances after.
"""
import itertools
import math

import numpy as np

from mc import lattice
from mc.oracle import hyp

TOL = 1e-9
NORM_CAP = 20.0     # library class predicates use an absolute 1e-8 threshold: only read for |M| <= 20
INF = -1            # Coxeter label for infinity


# ------------------------------------------------------------------------------------------
# reference helpers (numpy only)
# ------------------------------------------------------------------------------------------
def tangent_at(p, w):
    """Project w to the Minkowski-orthogonal complement of the timelike vector p."""
    p = np.asarray(p, dtype=float)
    w = np.asarray(w, dtype=float)
    return w - p * (hyp.mink(w, p) / hyp.mink(p, p))


def nullness(v):
    """How close find_isometry's Gram-Schmidt pass over the SVD kernel basis of <v, .> comes to a
    null vector (relative Minkowski norm of the smallest residual).  ~1e-16 for normals like
    (0,-1,-1): the input class of finding F11."""
    v = np.asarray(v, dtype=float)
    n = len(v) - 1
    vh = v / np.sqrt(abs(hyp.mink(v, v)))
    _, _, w = np.linalg.svd((vh @ hyp.J(n))[None, :])
    res = []
    worst = 1.0
    with np.errstate(all="ignore"):
        for r in w[1:]:
            r = r.copy()
            for b in res:
                r = r - b * hyp.mink(r, b) / hyp.mink(b, b)
            rel = abs(float(hyp.mink(r, r))) / float(r @ r)
            worst = min(worst, rel if rel == rel else 0.0)
            res.append(r)
    return worst


def cox_matrix(desc):
    """Coxeter matrix from ["tri", p, q, r] or ["mat", [[...]]] (INF = -1)."""
    if desc[0] == "tri":
        p, q, r = desc[1:4]
        return [[1, p, r], [p, 1, q], [r, q, 1]]
    return desc[1]


def cox_signature(mat):
    m = np.array(mat, dtype=float)
    with np.errstate(divide="ignore"):
        B = -np.cos(np.pi / np.where(m <= 0, 0.5, m))
    ev = np.linalg.eigvalsh(B)
    return int(np.sum(ev > 0)), int(np.sum(ev < 0)), float(np.min(np.abs(ev)))


def cox_cosine(mat):
    m = np.array(mat, dtype=float)
    with np.errstate(divide="ignore"):
        return -np.cos(np.pi / np.where(m <= 0, np.inf, m))


# what the SAME group object is asked for before hyperbolic_rep() is taken (all legal, unrelated requests)
COX_PRIORS = ["tits_vinberg_diag", "cartan_signed_diag", "geometric_diag", "canonical", "canonical_diag", "hyperbolic_rep"]


def cox_tv_parameters(mat):
    """Non-default Tits-Vinberg parameters {(i, j): value} for the pairs with an infinite label
    (written negative: INF = -1), i < j; the default entry of the Cartan matrix is -2."""
    n = len(mat)
    return {(i, j): -3.0 - 0.5 * (i + j) for i in range(n) for j in range(i + 1, n) if mat[i][j] < 0}


def cox_prior_ok(mat, prior):
    """Is the earlier request defined for this group?  tits_vinberg_diag: the group has an infinite
    label and the deformed symmetric Cartan matrix is non-degenerate (|eigenvalue| > 1e-3)."""
    if prior != "tits_vinberg_diag":
        return True
    par = cox_tv_parameters(mat)
    if not par:
        return False
    C = 2.0 * cox_cosine(mat)
    for (i, j), x in par.items():
        C[i, j] = C[j, i] = x
    return float(np.min(np.abs(np.linalg.eigvalsh(C / 2.0)))) > 1e-3


def cox_request(G, mat, prior):
    """Ask the group object for another representation (the result is discarded)."""
    if prior == "tits_vinberg_diag":
        return G.tits_vinberg_rep(cox_tv_parameters(mat), diagonalize=True)
    if prior == "cartan_signed_diag":         # S C S, S = diag(+1,-1,+1,..): a symmetric Cartan matrix of the same group
        sg = np.array([(-1.0) ** i for i in range(len(mat))])
        return G.cartan_representation(2.0 * cox_cosine(mat) * sg[:, None] * sg[None, :], diagonalize=True)
    if prior == "geometric_diag":
        return G.geometric_representation(diagonalize=True)
    if prior == "canonical":
        return G.canonical_representation()
    if prior == "canonical_diag":
        return G.canonical_representation(diagonalize=True)
    if prior == "hyperbolic_rep":
        return G.hyperbolic_rep()
    raise ValueError(prior)


# ------------------------------------------------------------------------------------------
# building generators with the real constructors
# ------------------------------------------------------------------------------------------
def gen_class(desc):
    k = desc[0]
    if k == "rotation_np":
        return "rotation"
    if k in ("origin_to", "timelike_to", "spacelike_to", "tv_origin_to", "tv_isometry_to"):
        fo = desc[-1]
        if k == "spacelike_to" and nullness(desc[1]) < 1e-5:
            return "null-kernel-vector"
        return "force_oriented" if fo else "not-oriented"
    if k == "reflection":
        flat = np.asarray(desc[1], dtype=float).reshape(-1, np.asarray(desc[1]).shape[-1])
        return "null-kernel-vector" if min(nullness(v) for v in flat) < 1e-5 else "generic-normal"
    if k == "sl2":
        return "det%+d" % int(round(np.linalg.det(np.array(desc[1], dtype=float))))
    if k == "coxeter":
        return "rank%d" % len(cox_matrix(desc[1])) + ("/after-other-request" if len(desc) > 3 else "")
    return "all"


SITE = {"rotation_np": "standard_rotation", "origin_to": "Point.origin_to", "tv_origin_to": "TangentVector.origin_to",
        "tv_isometry_to": "TangentVector.isometry_to", "rotation": "standard_rotation",
        "loxodromic": "standard_loxodromic", "elliptic": "elliptic", "sl2": "sl2_iso",
        "reflection": "reflection_across", "timelike_to": "timelike_to", "spacelike_to": "spacelike_to",
        "coxeter": "hyperbolic_rep"}


def build_gen(desc):
    """Descriptor -> fresh library Isometry."""
    from geometry_tools import hyperbolic as H
    k = desc[0]
    if k == "origin_to":                      # ["origin_to", projective vector, force_oriented]
        return H.Point(np.array(desc[1], dtype=float)).origin_to(force_oriented=desc[2])
    if k == "tv_origin_to":                   # [.., point vector, tangent vector, force_oriented]
        tv = H.TangentVector(H.Point(np.array(desc[1], dtype=float)), np.array(desc[2], dtype=float))
        return tv.origin_to(force_oriented=desc[3])
    if k == "tv_isometry_to":                 # [.., p1, v1, p2, v2, force_oriented]
        tv1 = H.TangentVector(H.Point(np.array(desc[1], dtype=float)), np.array(desc[2], dtype=float))
        tv2 = H.TangentVector(H.Point(np.array(desc[3], dtype=float)), np.array(desc[4], dtype=float))
        if desc[5] is None:
            return tv1.isometry_to(tv2)
        return tv1.isometry_to(tv2, force_oriented=desc[5])
    if k == "rotation":                       # [.., angle, dimension]
        return H.Isometry.standard_rotation(desc[1], dimension=desc[2])
    if k == "rotation_np":                    # [.., angle, dimension, numpy scalar type]: angle packaged as a NumPy scalar
        return H.Isometry.standard_rotation(getattr(np, desc[3])(desc[1]), dimension=desc[2])
    if k == "loxodromic":                     # [.., dimension, parameter]
        return H.Isometry.standard_loxodromic(desc[1], desc[2])
    if k == "elliptic":                       # [.., dimension, block, column_vectors]
        return H.Isometry.elliptic(desc[1], np.array(desc[2], dtype=float), column_vectors=desc[3])
    if k == "sl2":                            # [.., 2x2 matrix, "sl2_iso"|"from_sl2"|"list"]
        if desc[2] == "from_sl2":
            return H.Isometry.from_sl2(np.array(desc[1], dtype=float))
        if desc[2] == "list":
            return H.sl2_iso([[float(x) for x in row] for row in desc[1]])
        return H.sl2_iso(np.array(desc[1], dtype=float))
    if k == "reflection":                     # [.., normal (n+1,) or composite (..., 1, n+1) with index]
        arr = np.array(desc[1], dtype=float)
        refl = H.Hyperplane(arr).reflection_across()
        if arr.ndim > 1:
            idx = tuple(desc[2])
            return H.Isometry(refl.matrix[idx])
        return refl
    if k == "timelike_to":
        return H.timelike_to(np.array(desc[1], dtype=float), force_oriented=desc[2])
    if k == "spacelike_to":
        return H.spacelike_to(np.array(desc[1], dtype=float), force_oriented=desc[2])
    if k == "coxeter":                        # [.., ["tri",p,q,r] | ["mat", M], generator index (, earlier request)]
        from geometry_tools.coxeter import CoxeterGroup, TriangleGroup
        if desc[1][0] == "tri":
            G = TriangleGroup(tuple(desc[1][1:4]))
        else:
            G = CoxeterGroup(matrix=desc[1][1])
        if len(desc) > 3:                     # the same group object has been asked for something else before
            cox_request(G, cox_matrix(desc[1]), desc[3])
        rep = G.hyperbolic_rep()
        return rep[G.ordered_gens[desc[2]]]
    raise ValueError(k)


def gen_dim(desc):
    k = desc[0]
    if k in ("origin_to", "tv_origin_to", "tv_isometry_to", "timelike_to", "spacelike_to"):
        return len(desc[1]) - 1
    if k in ("rotation", "rotation_np"):
        return desc[2]
    if k in ("loxodromic", "elliptic"):
        return desc[1]
    if k == "sl2":
        return 2
    if k == "reflection":
        return np.asarray(desc[1]).shape[-1] - 1
    if k == "coxeter":
        return len(cox_matrix(desc[1])) - 1
    raise ValueError(k)


# ------------------------------------------------------------------------------------------
# invariants
# ------------------------------------------------------------------------------------------
def form_error(M):
    n = M.shape[-1] - 1
    J = hyp.J(n)
    with np.errstate(all="ignore"):
        e1 = np.max(np.abs(M @ J @ M.T - J))
        e2 = np.max(np.abs(M.T @ J @ M - J))
    e = max(float(e1), float(e2))
    return e if e == e else float("inf")


def matrix_of(iso, n):
    M = np.asarray(iso.matrix)
    if M.shape != (n + 1, n + 1):
        return None, "matrix shape %r" % (M.shape,)
    if M.dtype.kind != "f":
        return None, "matrix dtype %s" % M.dtype
    if not np.all(np.isfinite(M)):
        return None, "matrix has non-finite entries"
    return M, None


_DATA = {}       # pure lattice data (numpy arrays, never library objects), keyed by (n, seed)


def test_vectors(n, seed):
    """(timelike, lightlike, spacelike) row vectors with a relative margin >= 1e-3."""
    if ("tv", n, seed) in _DATA:
        return _DATA[("tv", n, seed)]
    P = lattice.klein_points(n, 4, seed)
    I = lattice.ideal_dirs(n, 4, seed, avoid_infinity=0)
    T = np.stack([lattice.LAMBDAS[i % 4] * hyp.klein_to_projective(k) for i, k in enumerate(P)])
    L = np.stack([lattice.LAMBDAS[i % 4] * hyp.klein_to_projective(d) for i, d in enumerate(I)])
    S = np.stack([np.concatenate([[a], s * d]) for i, d in enumerate(I)
                  for (a, s) in [((0.0, 0.7, -0.4)[i % 3], 1.0), (1.0, 1.5)]])
    for arr, c in ((T, -1), (L, 0), (S, 1)):
        assert np.all(hyp.classify(arr, 1e-3 if c else 1e-12) == c)
    _DATA[("tv", n, seed)] = (T, L, S)
    return T, L, S


def lattice_points(n, seed):
    if ("pts", n, seed) not in _DATA:
        _DATA[("pts", n, seed)] = np.stack(lattice.klein_points(n, 4, seed))
    return _DATA[("pts", n, seed)]


def check_iso(iso, n, seed, site, cls, who):
    """All invariants of the property for one isometry; returns (violations, calls, summary)."""
    from geometry_tools import hyperbolic as H
    v = []
    M, bad = matrix_of(iso, n)
    if bad is not None:
        return [{"key": "form/%s/%s" % (site, cls), "msg": "%s: %s" % (who, bad)}], 1, "bad"
    J = hyp.J(n)
    nrm = max(1.0, float(np.linalg.norm(M, 2)))
    scale = nrm * nrm
    fe = form_error(M)
    if not fe <= TOL * scale:
        v.append({"key": "form/%s/%s" % (site, cls),
                  "msg": "%s: max(|M J M^T - J|, |M^T J M - J|) = %.3g with |M| = %.3g" % (who, fe, nrm)})
        return v, 1, "form"
    t = 1
    # inverse (row convention: the inverse of M is J M^T J)
    Minv, bad = matrix_of(iso.inv(), n)
    t += 1
    if bad is not None:
        v.append({"key": "inverse/%s/%s" % (site, cls), "msg": "%s: inv(): %s" % (who, bad)})
    else:
        ie = float(np.max(np.abs(Minv - J @ M.T @ J)))
        if not ie <= TOL * scale:
            v.append({"key": "inverse/%s/%s" % (site, cls),
                      "msg": "%s: inv() differs from J M^T J by %.3g (|M| = %.3g)" % (who, ie, nrm)})
    # distances between all ordered pairs of distinct lattice points
    K = lattice_points(n, seed)
    N = len(K)
    ii, jj = np.nonzero(~np.eye(N, dtype=bool))
    want = hyp.dist_klein(K[ii], K[jj])
    reps = np.array([lattice.LAMBDAS[i % 4] for i in range(N)])[:, None]
    pts = H.Point(reps * hyp.klein_to_projective(K))
    img = iso @ pts
    t += 1
    data = np.asarray(img.proj_data)
    if data.shape != (N, n + 1) or not np.all(np.isfinite(data)):
        v.append({"key": "distance/%s/%s" % (site, cls), "msg": "%s: image of %d points has data of shape %r / non-finite" % (who, N, data.shape)})
    else:
        got_raw = hyp.dist_projective(data[ii], data[jj])       # oracle metric on the image vectors
        got_lib = np.asarray(H.Point(data[ii].copy()).distance(H.Point(data[jj].copy())))
        t += 1
        tol = TOL * (1.0 + want) * scale
        for nm, got in (("oracle metric on images", got_raw), ("Point.distance of images", got_lib)):
            if got.shape != want.shape or not np.all(np.abs(got - want) <= tol):
                worst = float(np.nanmax(np.abs(got - want))) if got.shape == want.shape else float("nan")
                v.append({"key": "distance/%s/%s" % (site, cls),
                          "msg": "%s: %s differ from the distances before by up to %.3g (|M| = %.3g)" % (who, nm, worst, nrm)})
                break
    # timelike / lightlike / spacelike classes
    T, L, S = test_vectors(n, seed)
    for name, X, c in (("timelike", T, -1), ("lightlike", L, 0), ("spacelike", S, 1)):
        Y = np.asarray((iso @ H.Point(X.copy())).proj_data)
        t += 1
        if Y.shape != X.shape:
            v.append({"key": "class/%s/%s" % (site, cls), "msg": "%s: image of %s vectors has shape %r" % (who, name, Y.shape)})
            continue
        qx, qy = hyp.mink(X, X), hyp.mink(Y, Y)
        slack = TOL * scale * np.sum(X * X, axis=-1)
        ok = np.abs(qy - qx) <= slack
        if c == 0:
            ok &= np.abs(qy) <= slack
        else:
            ok &= np.sign(qy) == c
        if not np.all(ok):
            i = int(np.argmin(ok))
            v.append({"key": "class/%s/%s" % (site, cls),
                      "msg": "%s: %s vector %r (<x,x>=%.3g) is sent to %r with <y,y>=%.3g" % (
                          who, name, X[i].tolist(), qx[i], Y[i].tolist(), qy[i])})
            continue
        if nrm <= NORM_CAP:
            tl, ll, sl = np.asarray(H.timelike(Y)), np.asarray(H.lightlike(Y)), bool(np.all(H.spacelike(Y)))
            t += 3
            good = {-1: bool(tl.all()) and not bool(ll.any()) and not sl,
                    0: bool(ll.all()),
                    1: sl and not bool(tl.any()) and not bool(ll.any())}[c]
            if not good:
                v.append({"key": "class-predicate/%s/%s" % (site, cls),
                          "msg": "%s: images of %s vectors: timelike()=%r lightlike()=%r spacelike()=%r" % (
                              who, name, tl.tolist(), ll.tolist(), sl)})
    return v, t, "%d" % int(math.ceil(math.log10(fe / scale + 1e-18)))


def mkey(M):
    return repr((M.shape[0], (np.round(M, 6) + 0.0).tolist()))


def describe(desc):
    return "%s%r" % (SITE[desc[0]], desc[1:])


# ------------------------------------------------------------------------------------------
# case functions
# ------------------------------------------------------------------------------------------
def case_generator(case):
    desc, seed = case["gen"], case["seed"]
    n = gen_dim(desc)
    site, cls = SITE[desc[0]], gen_class(desc)
    who = "H^%d %s" % (n, describe(desc))
    if cls == "null-kernel-vector":
        # finding F11: the frame completion meets a null vector; whatever happens (garbage matrix,
        # singular-matrix exception) is reported under one key
        import warnings
        try:
            with warnings.catch_warnings(), np.errstate(all="ignore"):
                warnings.simplefilter("ignore")
                g = build_gen(desc)
                v, t, o = check_iso(g, n, seed, site, cls, who)
        except (np.linalg.LinAlgError, ValueError, ZeroDivisionError, FloatingPointError) as e:
            v, t, o = [{"key": "form/%s/%s" % (site, cls), "msg": "%s raises %s: %s" % (who, type(e).__name__, e)}], 1, "exc"
        if not v:    # a flagged input the library handles correctly is fine
            return {"v": [], "t": t, "o": "%d/%s/%s/ok" % (n, site, cls), "nt": True}
        return {"v": [x for x in v if x["key"].startswith("form/")][:1] or v[:1], "t": t, "o": "%d/%s/%s/%s" % (n, site, cls, o), "nt": True}
    else:
        g = build_gen(desc)
    v, t, o = check_iso(g, n, seed, site, cls, who)
    if not v:
        v2, t2, _ = check_iso(g.inv(), n, seed, site, cls, who + " .inv()")
        for x in v2:
            x["key"] = x["key"].replace("form/", "form-of-inverse/", 1)
        v += v2
        t += t2
    return {"v": v, "t": t + 1, "o": "%d/%s/%s/%s" % (n, site, cls, o), "nt": True}


def case_word(hist):
    """hist = [["dim", n, seed, depth bound, alphabet name], [desc, exponent], ...]"""
    _, n, seed, bound, alpha = hist[0]
    from geometry_tools import hyperbolic as H
    acc = H.identity(n)
    t = 1
    names = []
    v = []
    for desc, e in hist[1:]:
        g = build_gen(desc)
        t += 1
        M, bad = matrix_of(g, n)
        site, cls = SITE[desc[0]], gen_class(desc)
        fe = form_error(M) if bad is None else float("inf")
        if not fe <= TOL * max(1.0, float(np.linalg.norm(M, 2)) ** 2 if bad is None else 1.0):
            # a generator that is not an isometry: reported under the generator's own key
            v.append({"key": "form/%s/%s" % (site, cls), "msg": "H^%d %s: %s" % (n, describe(desc), bad or "form error %.3g" % fe)})
            return {"v": v, "t": t, "o": "badgen", "nt": True, "key": None, "ops": []}
        if e < 0:
            g = g.inv()
            t += 1
        acc = acc @ g
        t += 1
        names.append(SITE[desc[0]] + ("^-1" if e < 0 else ""))
    who = "H^%d word %s = %r" % (n, " @ ".join(names) or "identity", [[d, e] for d, e in hist[1:]])
    v, tt, o = check_iso(acc, n, seed, "composition", "len%d" % (len(hist) - 1), who)
    M, bad = matrix_of(acc, n)
    key = mkey(M) if bad is None else None
    ops = []
    if not v and len(hist) - 1 < bound:      # (no successors are needed beyond the depth bound)
        ops = [[g, e] for g in (reduced_alphabet if alpha == "reduced" else mini_alphabet)(n, seed) for e in (1, -1)]
    kinds = "+".join(sorted({nm.replace("^-1", "") for nm in names}))
    return {"v": v, "t": t + tt, "o": "%d/%s/%s" % (n, kinds, o), "nt": len(hist) > 1, "key": key, "ops": ops}


# ------------------------------------------------------------------------------------------
# alphabets
# ------------------------------------------------------------------------------------------
def proj_points(n, seed, m=4):
    P = lattice.klein_points(n, m, seed)
    return [(lattice.LAMBDAS[i % 4] * hyp.klein_to_projective(k)) for i, k in enumerate(P)]


def tangent_pairs(n, seed, m=4):
    """(point vector, tangent vector) for every lattice point; the vector points to the next point."""
    P = proj_points(n, seed, m)
    out = []
    for i, p in enumerate(P):
        q = P[(i + 1) % len(P)]
        w = tangent_at(p, q) * (1.0 + 0.5 * (i % 3))
        if i % 2:
            w = -w
        out.append((p.tolist(), w.tolist()))
    return out


def signed_perm_blocks(n, limit=None):
    out = []
    for perm in itertools.permutations(range(n)):
        for signs in itertools.product((1.0, -1.0), repeat=n):
            B = np.zeros((n, n))
            for i, j in enumerate(perm):
                B[i, j] = signs[i]
            out.append(B.tolist())
    if limit is not None and len(out) > limit:
        step = len(out) / float(limit)
        out = [out[int(i * step)] for i in range(limit)]
    return out


def sl2_integer_matrices():
    out = []
    for a, b, c, d in itertools.product(range(-2, 3), repeat=4):
        if a * d - b * c in (1, -1):
            out.append([[float(a), float(b)], [float(c), float(d)]])
    return out


def normals(n, seed, m=4):
    """Spacelike normals: (a, s*d) over ideal directions d, plus symmetric ones like (0,-1,-1)."""
    I = lattice.ideal_dirs(n, m, seed, avoid_infinity=0)
    out = []
    for i, d in enumerate(I):
        a = (0.0, 0.3, -0.6)[i % 3]
        s = (1.0, 2.0, 0.5)[(i // 3) % 3]
        out.append((s * np.concatenate([[a], d])).tolist())
    sym = [[0.0, -1.0, -1.0], [0.0, 1.0, 1.0], [0.0, 1.0, -1.0], [0.2, -1.0, -1.0], [0.0, 1.0, 2.0]]
    for s in sym:
        out.append(s + [0.0] * (n - 2))
    if n >= 3:
        out.append([0.0] + [1.0] * n)
    return out


# a spacelike normal is a homogeneous vector: lambda v (lambda != 0) is spacelike whenever v is, and names the same hyperplane
NORMAL_SCALES = [3e-5, 1e-6, 1e4, -1.0, -3e-5, -1e-6, -1e4]


def scaled_normals(n, seed, m=4):
    """[scale, scaled normal] for every generic (non-F11) normal of `normals` x NORMAL_SCALES; the F11 class of a normal is decided on
    the scaled vector itself (the SVD kernel basis may depend on the sign)."""
    out = []
    for v in normals(n, seed, m):
        if nullness(v) < 1e-5:
            continue
        for s in NORMAL_SCALES:
            w = [float(s) * float(x) for x in v]
            if nullness(w) >= 1e-5:
                out.append([s, w])
    return out


def triangle_triples(labels):
    out = []
    for t in itertools.combinations_with_replacement(labels, 3):
        s = sum(0.0 if x == INF else 1.0 / x for x in t)
        if s < 1.0 - 1e-9:
            out.append(list(t))
    return out


RANK4 = [
    # linear diagrams [p,q,r]: m01=p, m12=q, m23=r
    [3, 5, 3], [5, 3, 4], [5, 3, 5], [3, 3, 6], [3, 4, 4], [4, 4, 4], [6, 3, 6], [3, 6, 3], [4, 3, 6], [5, 3, 6],
]
RANK4_CYCLIC = [[3, 3, 3, 4], [3, 3, 3, 5], [3, 4, 3, 4], [3, 4, 3, 5], [3, 5, 3, 5]]


INF_SPELLINGS = ["zero", "minus-three", "mixed"]


def respell(labels, enc):
    """The same Coxeter data with every infinite label (INF = -1) written as 0, as -3, or alternately 0 / -3
    (symmetric positions of a matrix get the same spelling)."""
    vals = {"zero": [0], "minus-three": [-3], "mixed": [0, -3]}[enc]
    if labels and isinstance(labels[0], list):
        n = len(labels)
        out = [list(r) for r in labels]
        k = 0
        for i in range(n):
            for j in range(i + 1, n):
                if labels[i][j] == INF:
                    out[i][j] = out[j][i] = vals[k % len(vals)]
                    k += 1
        return out
    out, k = [], 0
    for x in labels:
        if x == INF:
            out.append(vals[k % len(vals)])
            k += 1
        else:
            out.append(x)
    return out


def rank4_matrices():
    out = []
    for p, q, r in RANK4:
        out.append([[1, p, 2, 2], [p, 1, q, 2], [2, q, 1, r], [2, 2, r, 1]])
    for a, b, c, d in RANK4_CYCLIC:
        out.append([[1, a, 2, d], [a, 1, b, 2], [2, b, 1, c], [d, 2, c, 1]])
    out.append([[1, 5, 2, 2], [5, 1, 3, 3], [2, 3, 1, 2], [2, 3, 2, 1]])       # [5,3^{1,1}]
    return [m for m in out if cox_signature(m)[:2] == (3, 1) and cox_signature(m)[2] > 1e-3]


def rank4_noncompact():
    """Rank 4 with infinite labels (written -1): linear diagrams [p, q, inf], [p, inf, r], a cycle and the
    complete graph on inf, kept when the oracle's cosine form has signature (3,1), |eigenvalue| > 1e-3."""
    out = []
    for p, q, r in ([3, 3, INF], [3, 4, INF], [4, 3, INF], [3, INF, 3], [INF, 3, INF], [3, 6, INF], [INF, INF, INF]):
        out.append([[1, p, 2, 2], [p, 1, q, 2], [2, q, 1, r], [2, 2, r, 1]])
    out.append([[1, 3, 2, INF], [3, 1, 3, 2], [2, 3, 1, 3], [INF, 2, 3, 1]])
    out.append([[1, INF, INF, INF], [INF, 1, INF, INF], [INF, INF, 1, INF], [INF, INF, INF, 1]])
    out.append([[1, 3, 3, INF], [3, 1, 3, 3], [3, 3, 1, 3], [INF, 3, 3, 1]])
    return [m for m in out if cox_signature(m)[:2] == (3, 1) and cox_signature(m)[2] > 1e-3]


def full_alphabet(n, seed, quick):
    G = []
    P = proj_points(n, seed)
    for p in P:
        for fo in (True, False):
            G.append(["origin_to", p.tolist(), fo])
            G.append(["timelike_to", p.tolist(), fo])
    # the same constructors on unusual but legal parameters: tiny / huge homogeneous scale, points far from the
    # origin, very short and very long tangent vectors
    u = lattice.generic_dir(n, 7, seed)
    for scale in (1e-5, -1e-6, 1e4):
        for p in P[1:3]:
            G.append(["origin_to", (scale * np.asarray(p) / abs(lattice.LAMBDAS[0])).tolist(), True])
            G.append(["timelike_to", (scale * np.asarray(p)).tolist(), False])
    for R in (3.0, 5.0):       # cosh 5 = 74: the distance sub-check (tolerance ~ eps |M|^2 / d) is still meaningful
        far = np.concatenate([[math.cosh(R)], math.sinh(R) * u])
        G.append(["origin_to", far.tolist(), True])
        G.append(["origin_to", (1e-3 * far).tolist(), False])
    TP = tangent_pairs(n, seed)
    for (p, w) in TP[:2]:
        for ws in (1e-5, 1e-7, 1e3):
            G.append(["tv_origin_to", p, (ws * np.asarray(w)).tolist(), True])
        G.append(["tv_origin_to", (1e-5 * np.asarray(p)).tolist(), w, False])
    for i, (p, w) in enumerate(TP):
        for fo in (True, False):
            G.append(["tv_origin_to", p, w, fo])
        p2, w2 = TP[(i + 3) % len(TP)]
        G.append(["tv_isometry_to", p, w, p2, w2, [None, True, False][i % 3]])
    for th in (0.7, math.pi / 2, -2.1):
        G.append(["rotation", th, n])
    for th, ty in ((1, "int64"), (2, "int32"), (3, "float64")):
        G.append(["rotation_np", th, n, ty])
    G.append(["rotation", 2, n])              # Python int angle
    for lam in (1.5, 0.4):
        G.append(["loxodromic", n, lam])
    G.append(["loxodromic", n, 2])            # Python int parameter
    for i, B in enumerate(signed_perm_blocks(n, 48 if quick else 384)):
        G.append(["elliptic", n, B, i % 2 == 0])
    if n == 2:
        for i, A in enumerate(sl2_integer_matrices()):
            G.append(["sl2", A, ["sl2_iso", "from_sl2", "list"][i % 3]])
        for tri in triangle_triples([2, 3, 4, 5, 6, 7, INF]):
            perms = [tri] if quick else sorted({p for p in itertools.permutations(tri)})
            for p in perms:
                for g in range(3):
                    G.append(["coxeter", ["tri"] + list(p), g])
            # hyperbolic_rep() of a group object that was asked for another representation first
            for p in ([tri] if quick else sorted({p for p in itertools.permutations(tri)})):
                for prior in COX_PRIORS:
                    if cox_prior_ok(cox_matrix(["tri"] + list(p)), prior):
                        for g in range(3):
                            G.append(["coxeter", ["tri"] + list(p), g, prior])
        # infinity may be written as zero or as any negative number: the same groups with other spellings
        for tri in triangle_triples([2, 3, 4, 5, 6, 7, INF]):
            if INF in tri:
                for enc in INF_SPELLINGS:
                    for g in range(3):
                        G.append(["coxeter", ["tri"] + respell(tri, enc), g])
    if n == 3:
        for m in rank4_noncompact():
            for enc in INF_SPELLINGS:
                for g in range(4):
                    G.append(["coxeter", ["mat", respell(m, enc)], g])
        for m in rank4_matrices() + rank4_noncompact():
            for g in range(4):
                G.append(["coxeter", ["mat", m], g])
            for prior in COX_PRIORS:
                if cox_prior_ok(m, prior):
                    for g in range(4):
                        G.append(["coxeter", ["mat", m], g, prior])
    N = normals(n, seed)
    for v in N:
        G.append(["reflection", v])
        for fo in (True, False):
            G.append(["spacelike_to", v, fo])
    # the same normals at small / large / negative homogeneous scale
    SN = scaled_normals(n, seed)
    for i, (s, w) in enumerate(SN):
        G.append(["reflection", w])
        G.append(["spacelike_to", w, i % 2 == 0])
    for i in range(0, len(SN) - 2, 3):         # composites mixing scales
        trio = [[SN[i][1]], [SN[i + 1][1]], [N[i % len(N)]]]
        if nullness(trio[2][0]) >= 1e-5:
            for j in range(3):
                G.append(["reflection", trio, [j]])
    # composite normals in the library's own (..., 1, n+1) layout
    gen = [v for v in N if nullness(v) >= 1e-5]
    comp = [[gen[0]], [gen[1]], [gen[2]]]
    for i in range(3):
        G.append(["reflection", comp, [i]])
    comp2 = [[[gen[3]], [gen[4]]], [[gen[5]], [gen[0]]]]
    for i in range(2):
        for j in range(2):
            G.append(["reflection", comp2, [i, j]])
    return G


_RED = {}


def reduced_alphabet(n, seed):
    """The generators of the Cayley-graph exploration (a fixed sub-alphabet of full_alphabet)."""
    if (n, seed) in _RED:
        return _RED[(n, seed)]
    G = []
    P = proj_points(n, seed)
    sel = [P[3], P[len(P) - 3], P[len(P) - 1]]
    for k, p in enumerate(sel):
        for fo in (True, False):
            G.append(["origin_to", p.tolist(), fo])
    TP = tangent_pairs(n, seed)
    for k in (1, 4, len(TP) - 2):
        p, w = TP[k]
        p2, w2 = TP[(k + 3) % len(TP)]
        G.append(["tv_origin_to", p, w, k % 2 == 0])
        G.append(["tv_isometry_to", p, w, p2, w2, None])
    for th in (0.7, math.pi / 2, -2.1):
        G.append(["rotation", th, n])
    for lam in (1.5, 0.4):
        G.append(["loxodromic", n, lam])
    blocks = signed_perm_blocks(n)
    for i in (1, len(blocks) // 2 + 1, len(blocks) - 2):
        G.append(["elliptic", n, blocks[i], i % 2 == 0])
    if n == 2:
        for A in ([[1.0, 1.0], [0.0, 1.0]], [[2.0, 1.0], [1.0, 1.0]], [[0.0, 1.0], [-1.0, 0.0]],
                  [[1.0, 2.0], [0.0, -1.0]], [[2.0, -1.0], [1.0, 0.0]]):
            G.append(["sl2", A, "sl2_iso"])
        for tri in ([2, 3, 7], [3, 3, INF]):
            for g in range(3):
                G.append(["coxeter", ["tri"] + tri, g])
    if n == 3:
        ms = rank4_matrices()
        for m in (ms[0], ms[3]):
            for g in range(4):
                G.append(["coxeter", ["mat", m], g])
    gen = [v for v in normals(n, seed) if nullness(v) >= 1e-5]
    for v in (gen[1], gen[len(gen) // 2], gen[-1]):
        G.append(["reflection", v])
    G.append(["timelike_to", P[2].tolist(), False])
    G.append(["timelike_to", P[len(P) - 2].tolist(), True])
    G.append(["spacelike_to", gen[2], False])
    G.append(["spacelike_to", gen[-2], True])
    _RED[(n, seed)] = G
    return G


def mini_alphabet(n, seed):
    """One generator per constructor (the first of each kind in the reduced alphabet; two for the
    Coxeter representation) - used for the deepest level in the higher dimensions."""
    out, seen = [], {}
    for g in reduced_alphabet(n, seed):
        k = g[0]
        if seen.get(k, 0) < (2 if k == "coxeter" else 1):
            seen[k] = seen.get(k, 0) + 1
            out.append(g)
    return out


# ------------------------------------------------------------------------------------------
# composite constructor inputs
# ------------------------------------------------------------------------------------------
COMPOSITE_SHAPES = [[1], [2], [3], [2, 2], [3, 3], [2, 3], [3, 2], [2, 1, 2], [1, 1], [4, 4], [2, 2, 2], [1, 3, 3]]
COMPOSITE_SITE = {"origin_to": "Point.origin_to", "timelike_to": "timelike_to", "tv_origin_to": "TangentVector.origin_to",
                  "tv_isometry_to": "TangentVector.isometry_to", "spacelike_to": "spacelike_to",
                  "reflection": "reflection_across", "sl2": "sl2_iso", "coxeter_words": "hyperbolic_rep"}


def _cox_group(desc):
    from geometry_tools.coxeter import CoxeterGroup, TriangleGroup
    if desc[0] == "tri":
        return TriangleGroup(tuple(desc[1:4]))
    return CoxeterGroup(matrix=desc[1])


def build_composite(case):
    """Composite case -> fresh composite library Isometry of batch shape case["shape"]."""
    from geometry_tools import hyperbolic as H
    k, n, shape, fo = case["ctor"], case["n"], tuple(case["shape"]), case.get("fo")
    U = case["units"]
    if k == "coxeter_words":                  # units = words in the generators; shape = (len(words),)
        G = _cox_group(case["group"])
        gens = list(G.ordered_gens)
        if case.get("prior"):
            cox_request(G, cox_matrix(case["group"]), case["prior"])
        return G.hyperbolic_rep().isometries(["".join(gens[i] for i in w) for w in U])
    if k == "sl2":                            # units = 2x2 matrices, array of shape (..., 2, 2)
        arr = np.array(U, dtype=float).reshape(shape + (2, 2))
        if case["variant"] == "from_sl2":
            return H.Isometry.from_sl2(arr)
        if case["variant"] == "list":
            return H.sl2_iso(arr.tolist())
        return H.sl2_iso(arr)
    if k in ("tv_origin_to", "tv_isometry_to"):
        def tv(i, j):
            p = np.array([u[i] for u in U], dtype=float).reshape(shape + (n + 1,))
            w = np.array([u[j] for u in U], dtype=float).reshape(shape + (n + 1,))
            return H.TangentVector(H.Point(p), w)
        if k == "tv_origin_to":
            return tv(0, 1).origin_to(force_oriented=fo)
        if fo is None:
            return tv(0, 1).isometry_to(tv(2, 3))
        return tv(0, 1).isometry_to(tv(2, 3), force_oriented=fo)
    arr = np.array(U, dtype=float)
    if k == "origin_to":                      # points: array of shape (..., n+1)
        return H.Point(arr.reshape(shape + (n + 1,))).origin_to(force_oriented=fo)
    arr = arr.reshape(shape + (1, n + 1))     # the library's layout for arrays of single vectors / normals
    if k == "timelike_to":
        return H.timelike_to(arr, force_oriented=fo)
    if k == "spacelike_to":
        return H.spacelike_to(arr, force_oriented=fo)
    if k == "reflection":
        return H.Hyperplane(arr).reflection_across()
    raise ValueError(k)


def case_composite(case):
    from geometry_tools import hyperbolic as H
    k, n, shape, seed = case["ctor"], case["n"], tuple(case["shape"]), case["seed"]
    site = COMPOSITE_SITE[k]
    cls = "composite-rank%d" % len(shape)
    who = "H^%d %s of a composite of shape %r (%s)" % (n, site, shape, {kk: vv for kk, vv in case.items() if kk in ("fo", "variant", "group", "prior")})
    if case.get("prior"):
        cls += "/after-other-request"
    G = build_composite(case)
    t = 1
    M = np.asarray(G.matrix)
    if M.shape != shape + (n + 1, n + 1) or M.dtype.kind != "f":
        return {"v": [{"key": "form/%s/%s" % (site, cls), "msg": "%s: matrix array of shape %r dtype %s, expected %r" % (
            who, M.shape, M.dtype, shape + (n + 1, n + 1))}], "t": t, "o": "shape", "nt": True}
    v, seen, worst = [], set(), -18
    for idx in np.ndindex(*shape):
        vv, tt, o = check_iso(H.Isometry(M[idx].copy()), n, seed, site, cls, "%s, member %r (input %r)" % (who, list(idx), case["units"][int(np.ravel_multi_index(idx, shape))]))
        t += tt
        for x in vv:
            if x["key"] not in seen:
                seen.add(x["key"])
                v.append(x)
        if not vv:
            worst = max(worst, int(o))
    if not v:
        # the composite's own inverse and elementwise products (a composite is composed member by member)
        J = hyp.J(n)
        scale = max(1.0, float(np.max(np.linalg.norm(M, 2, axis=(-2, -1))))) ** 2
        Mi = np.asarray(G.inv().matrix)
        t += 1
        if Mi.shape != M.shape or not np.all(np.isfinite(Mi)) or not float(np.max(np.abs(Mi - J @ np.swapaxes(M, -1, -2) @ J))) <= TOL * scale:
            v.append({"key": "inverse/%s/%s" % (site, cls), "msg": "%s: inv() of the composite is not J M^T J member by member" % who})
        else:
            for nm, P in (("G @ G.inv()", G @ G.inv()), ("G @ G", G @ G)):
                t += 2
                Mp = np.asarray(P.matrix)
                ok = Mp.shape == M.shape and bool(np.all(np.isfinite(Mp)))
                if ok:
                    e = max(form_error(Mp[idx]) for idx in np.ndindex(*shape))
                    ok = e <= TOL * scale * scale
                    if ok and nm == "G @ G.inv()":
                        ok = float(np.max(np.abs(Mp - np.eye(n + 1)))) <= TOL * scale * scale
                if not ok:
                    v.append({"key": "form/composition/%s" % cls, "msg": "%s: the elementwise product %s does not preserve the form / is not the identity" % (who, nm)})
    return {"v": v, "t": t, "o": "%d/%s/%s/%d" % (n, site, "x".join(map(str, shape)), worst), "nt": True}


def _cycle(units, count, offset):
    return [units[(offset + i) % len(units)] for i in range(count)]


def composite_cases(n, seed, quick):
    P = [p.tolist() for p in proj_points(n, seed, 6)]
    TP = tangent_pairs(n, seed, 6)
    TV = [[TP[i][0], TP[i][1], TP[(i + 3) % len(TP)][0], TP[(i + 3) % len(TP)][1]] for i in range(len(TP))]
    N = [v for v in normals(n, seed, 6) if nullness(v) >= 1e-5]
    SN = [w for _, w in scaled_normals(n, seed, 6)]
    S = sl2_integer_matrices()
    out = []
    for si, shape in enumerate(COMPOSITE_SHAPES):
        cnt = int(np.prod(shape))
        base = {"n": n, "shape": shape, "seed": seed}
        for fo in (True, False):
            out.append(dict(base, ctor="origin_to", units=_cycle(P, cnt, 3 * si), fo=fo))
            out.append(dict(base, ctor="timelike_to", units=_cycle(P, cnt, 3 * si + 1), fo=fo))
            out.append(dict(base, ctor="tv_origin_to", units=_cycle(TV, cnt, 3 * si), fo=fo))
            out.append(dict(base, ctor="spacelike_to", units=_cycle(N, cnt, 2 * si), fo=fo))
        for fo in (None, True, False):
            out.append(dict(base, ctor="tv_isometry_to", units=_cycle(TV, cnt, 3 * si + 2), fo=fo))
        out.append(dict(base, ctor="reflection", units=_cycle(N, cnt, 2 * si + 1)))
        # the same at mixed homogeneous scales (every member of the composite at another scale)
        out.append(dict(base, ctor="reflection", units=_cycle(SN, cnt, 5 * si + 1)))
        out.append(dict(base, ctor="spacelike_to", units=_cycle(SN, cnt, 5 * si + 3), fo=si % 2 == 0))
        if n == 2:
            for vi, variant in enumerate(("sl2_iso", "from_sl2", "list")):
                out.append(dict(base, ctor="sl2", units=_cycle(S, cnt, 7 * si + 11 * vi), variant=variant))
    groups = {2: [["tri", 2, 3, 7], ["tri", 3, 3, INF], ["tri", 2, 4, 5]], 3: [["mat", m] for m in rank4_matrices()[:3]]}.get(n, [])
    for grp in groups:
        r = len(cox_matrix(grp))
        for L in (1, 2, 3):
            words = [list(w) for w in itertools.product(range(r), repeat=L)]
            out.append({"n": n, "shape": [len(words)], "seed": seed, "ctor": "coxeter_words", "group": grp, "units": words})
    # ... of a group object that was asked for another representation first
    groups = {2: [["tri", 3, 3, INF], ["tri", 2, 4, INF], ["tri", INF, INF, INF], ["tri", 2, 4, 5]],
              3: [["mat", m] for m in rank4_noncompact()[:2] + rank4_matrices()[:1]]}.get(n, [])
    for grp in groups:
        r = len(cox_matrix(grp))
        words = [list(w) for w in itertools.product(range(r), repeat=2)]
        for prior in COX_PRIORS:
            if cox_prior_ok(cox_matrix(grp), prior):
                out.append({"n": n, "shape": [len(words)], "seed": seed, "ctor": "coxeter_words", "group": grp, "units": words,
                            "prior": prior})
    return out


# ------------------------------------------------------------------------------------------
# hostile caller: arrays handed out by the library are overwritten in place
# ------------------------------------------------------------------------------------------
def _scribble(arr, k):
    """Overwrite a returned ndarray in place with finite garbage; read-only arrays (a library that protects
    shared state) and non-arrays are left alone.  Returns the number of arrays overwritten."""
    if not isinstance(arr, np.ndarray) or arr.size == 0 or not arr.flags.writeable:
        return 0
    with np.errstate(all="ignore"):
        if arr.dtype.kind in "fc":
            arr[...] = np.abs(np.nan_to_num(arr)) * 2.0 + (0.25 + 0.125 * k)
        elif arr.dtype.kind in "iu":
            arr[...] = 7 + k
        else:
            return 0
    return 1


def hostile_scribble(n, seed, k):
    """Obtain every helper array of dimension n the public API hands out - from module functions and
    from FRESH objects that are discarded afterwards - and overwrite it in place."""
    from geometry_tools import hyperbolic as H
    from geometry_tools import utils
    c = 0
    for d in sorted({2, 3, n, n + 1, n + 2}):
        c += _scribble(H.minkowski(d), k)
        c += _scribble(H.minkowski(d, None), k)
        c += _scribble(H.minkowski(d, base_ring=None), k)
        c += _scribble(H.minkowski(dimension=d), k)
        c += _scribble(utils.indefinite_form(d - 1, 1), k)
        c += _scribble(utils.identity(d), k)
    P = proj_points(n, seed)
    N = [v for v in normals(n, seed) if nullness(v) >= 1e-5]
    TP = tangent_pairs(n, seed)
    fresh = lambda: [H.Point.get_origin(n), H.Point.get_origin(n, shape=(2,)), H.Point(np.array(P[3], dtype=float)),
                     H.identity(n), H.Isometry.standard_rotation(0.7, dimension=n), H.Isometry.standard_loxodromic(n, 1.5),
                     H.TangentVector.get_base_tangent(n), H.TangentVector(H.Point(np.array(TP[1][0])), np.array(TP[1][1])),
                     H.Hyperplane(np.array(N[1], dtype=float)), H.IdealPoint(np.array([1.0, 1.0] + [0.0] * (n - 1)))]
    for obj in fresh():                       # the form an object reports
        c += _scribble(obj.minkowski, k)
    for obj in fresh():                       # the data of throw-away objects
        c += _scribble(obj.proj_data, k)
        c += _scribble(getattr(obj, "aux_data", None), k)
    o = H.Point.get_origin(n)
    for model in ("klein", "poincare", "halfspace", "hyperboloid", "projective"):
        c += _scribble(H.Point.get_origin(n).coords(model), k)
        c += _scribble(H.Point(np.array(P[4], dtype=float)).coords(model), k)
    c += _scribble(o.hyperboloid_coords(), k)
    c += _scribble(o.origin_to().matrix, k)
    c += _scribble(H.identity(n).matrix, k)
    c += _scribble(H.identity(n).inv().proj_data, k)
    bt = H.TangentVector.get_base_tangent(n)
    for a in (bt.point, bt.vector, bt.normalized().proj_data, bt.origin_to().proj_data):
        c += _scribble(a, k)
    hp = H.Hyperplane(np.array(N[2], dtype=float))
    for a in (hp.spacelike_vector, hp.ideal_basis, hp.ideal_basis_coords(), hp.spacelike_complement().proj_data,
              hp.reflection_across().proj_data):
        c += _scribble(a, k)
    p, q = H.Point(np.array(P[3], dtype=float)), H.Point(np.array(P[5], dtype=float))
    c += _scribble(p.unit_tangent_towards(q).proj_data, k)
    c += _scribble(H.kleinian_coords(np.array(P[3], dtype=float)), k)
    c += _scribble(H.hyperboloid_coords(np.array(P[3], dtype=float)), k)
    if n in (2, 3):                           # generator matrices returned by a (throw-away) representation
        grp = ["tri", 2, 3, 7] if n == 2 else ["mat", rank4_matrices()[0]]
        G = _cox_group(grp)
        rep = G.hyperbolic_rep()
        for s in G.ordered_gens:
            c += _scribble(rep[s].proj_data, k)
            c += _scribble(rep[s].matrix, k)
        c += _scribble(rep.isometries(list(G.ordered_gens)).proj_data, k)
    return c


def case_hostile(case):
    from geometry_tools import hyperbolic as H
    desc, partner, seed = case["gen"], case["partner"], case["seed"]
    n = gen_dim(desc)
    site = SITE[desc[0]]
    cls = "after-caller-overwrote-returned-arrays"
    who = "H^%d %s built after the caller overwrote (in place) every helper array the library had returned" % (n, describe(desc))
    c = hostile_scribble(n, seed, 0)
    g0 = build_gen(desc)                      # an earlier isometry of the same kind; the caller reuses its arrays as scratch space
    c += _scribble(g0.inv().proj_data, 1)
    c += _scribble(g0.matrix, 1)
    c += _scribble(g0.proj_data, 1)
    del g0
    c += hostile_scribble(n, seed, 1)
    g1 = build_gen(desc)
    c += _scribble(g1.inv().proj_data, 2)     # returned inverses / images are new objects: theirs to overwrite
    c += _scribble((g1 @ H.Point(np.array(proj_points(n, seed)[2], dtype=float))).proj_data, 2)
    v, t, o = check_iso(g1, n, seed, site, cls, who)
    if not v:
        p = build_gen(partner)
        c += hostile_scribble(n, seed, 2)
        W = g1 @ p.inv()
        c += _scribble(W.inv().proj_data, 3)
        c += _scribble(p.inv().proj_data, 3)
        c += hostile_scribble(n, seed, 3)
        v2, t2, _ = check_iso(W, n, seed, "composition", cls, who + " @ inverse of %s" % describe(partner))
        v += v2
        t += t2 + 3
    return {"v": v, "t": t + c, "o": "%d/%s/%s" % (n, site, o), "nt": c > 0}


def hostile_cases(n, seed):
    A = [g for g in reduced_alphabet(n, seed) if gen_class(g) != "null-kernel-vector"]
    return [{"gen": g, "partner": A[(i + 5) % len(A)], "seed": seed} for i, g in enumerate(A)]


# ------------------------------------------------------------------------------------------
def run(ctx):
    q = ctx.quick
    seed = ctx.seed
    dims = [2, 3, 4] if q else [2, 3, 4, 5]
    depth = 2 if q else 3
    ctx.rule = ("generators: every constructor named in the property over its whole alphabet (engine P, with inverse); "
                "composite-constructors: every vectorised constructor x every batch shape, all members checked; "
                "hostile-caller: every generator of the reduced alphabet rebuilt after the caller overwrote all returned helper arrays; "
                "words: all products of <= %d generators/inverses of the reduced alphabet (thorough: depth 3 in H^2,H^3; depth 2 in H^4,H^5 plus depth 3 over one generator per constructor), explored breadth-first and "
                "merged on the matrix rounded to 6 decimals (engine E). Isometry matrices are row-convention: the "
                "invariants are M J M^T = J = M^T J M, inv() = J M^T J, distances of all ordered pairs of distinct "
                "lattice points, class of timelike/lightlike/spacelike test vectors. Non-trivial: a word of length >= 1" % depth)
    ctx.assume("points/vectors have float coordinates; tangent vectors are Minkowski-orthogonal to their base point")
    ctx.assume("reflection normals and spacelike_to arguments: lambda * v, v spacelike with relative margin >= 0.1, lambda = 1 or (generic normals) "
               "lambda in %s - being spacelike does not depend on the homogeneous scale;" % NORMAL_SCALES + " composite normals use the library's (..., 1, n+1) layout")
    ctx.assume("2x2 matrices have determinant +1 or -1 (integer entries in [-2, 2])")
    ctx.assume("Coxeter matrices are those whose cosine form has signature (d,1) with |eigenvalue| > 1e-3 according to the oracle")
    ctx.assume("hyperbolic_rep() is a function of the group: descriptors ['coxeter', group, generator, earlier request] take it from a group "
               "object that was first asked for one of %s (Tits-Vinberg parameters -3 - (i+j)/2 on the pairs with label -1, only when the "
               "deformed symmetric Cartan matrix has |eigenvalue| > 1e-3; S C S with S = diag(+1,-1,+1,..)); the earlier result is discarded" % COX_PRIORS)
    ctx.assume("d(x,x) after = before is not demanded here (C01 clause); pairs of distinct lattice points only")
    ctx.assume("library predicates timelike()/lightlike()/spacelike() (absolute threshold 1e-8) are read only when |M|_2 <= 1e3; "
               "test vectors have relative margin 1e-3")
    ctx.tolerances["form"] = "1e-9 * max(1,|M|_2)^2 (entries of M J M^T are sums of products of two entries of M)"
    ctx.tolerances["inverse"] = "1e-9 * |M|^2 against J M^T J"
    ctx.tolerances["distance"] = "1e-9 * (1+d) * |M|^2: <xM,xM> is computed from entries of size |M| with cancellation; lattice radius <= 0.9, d >= 0.05"
    ctx.tolerances["class"] = "|<xM,xM> - <x,x>| <= 1e-9 |M|^2 |x|^2; sign preserved for margin-1e-3 vectors"

    cases = []
    for n in dims:
        for g in full_alphabet(n, seed, q):
            cases.append({"gen": g, "seed": seed})
    ctx.product("generators", "checks.c02:case_generator", cases, chunk=16,
                domains={"dimensions": dims, "constructors": sorted(set(SITE.values())),
                         "generators per dimension": {n: len(full_alphabet(n, seed, q)) for n in dims}})
    ctx.assume("composite constructor inputs: arrays of points have shape S+(n+1,); arrays of vectors for timelike_to / spacelike_to / "
               "Hyperplane use the library's S+(1,n+1) layout; arrays of 2x2 matrices S+(2,2); batch shapes S in %s" % COMPOSITE_SHAPES)
    ctx.assume("hostile caller: only arrays RETURNED by the library (forms, coordinates, data of fresh throw-away objects, returned "
               "inverses / images / generator matrices) are overwritten in place, never the data of an object that is used afterwards, "
               "and never the caller's own input arrays after they were handed over; read-only arrays are left alone")
    ccases = []
    for n in dims:
        ccases += composite_cases(n, seed, q)
    ctx.product("composite-constructors", "checks.c02:case_composite", ccases, chunk=4,
                domains={"dimensions": dims, "batch shapes": COMPOSITE_SHAPES, "constructors": sorted(set(COMPOSITE_SITE.values())),
                         "force_oriented": [True, False, "default (isometry_to)"],
                         "Coxeter word arrays": "all words of length 1, 2, 3 in the generators of 3 groups (n = 2, 3)",
                         "checked": "every member: form, inverse, distances, classes; composite inv(), G @ G.inv(), G @ G member by member"})
    hcases = []
    for n in dims:
        hcases += hostile_cases(n, seed)
    ctx.product("hostile-caller", "checks.c02:case_hostile", hcases, chunk=2,
                domains={"dimensions": dims, "generators": "reduced alphabet (each with one partner for a composition)",
                         "overwritten before / between the constructor calls": [
                             "hyperbolic.minkowski(d) (positional / keyword call forms), utils.indefinite_form, utils.identity",
                             "obj.minkowski of fresh Point / IdealPoint / Isometry / TangentVector / Hyperplane",
                             "proj_data / aux_data of fresh get_origin, identity, get_base_tangent, standard isometries, Hyperplane",
                             "coords() in all five models, kleinian_coords / hyperboloid_coords",
                             "matrices of an isometry built earlier by the same constructor, returned inverses and images",
                             "generator matrices returned by a throw-away Coxeter representation (n = 2, 3)"]})
    if q:
        roots = [[["dim", n, seed, 2, "reduced"]] for n in dims]
        bounds = {n: 2 for n in dims}
    else:
        # depth 3 over the reduced alphabet in H^2, H^3; depth 2 in H^4, H^5 (plus depth 3 over the mini alphabet)
        bounds = {2: 3, 3: 3, 4: 2, 5: 2}
        roots = [[["dim", n, seed, bounds[n], "reduced"]] for n in dims]
    ctx.bfs("cayley-graph", "checks.c02:case_word", roots, depth=depth, chunk=32,
            domains={"dimensions": dims, "reduced alphabet size": {n: len(reduced_alphabet(n, seed)) for n in dims},
                     "exponents": [1, -1], "depth per dimension": bounds})
    if not q:
        roots = [[["dim", n, seed, 3, "mini"]] for n in (4, 5)]
        ctx.bfs("cayley-graph-mini", "checks.c02:case_word", roots, depth=3, chunk=32,
                domains={"dimensions": [4, 5], "alphabet": "one generator per constructor",
                         "alphabet size": {n: len(mini_alphabet(n, seed)) for n in (4, 5)}, "exponents": [1, -1], "depth": 3})
