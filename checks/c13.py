"""C13 - constructed isometries, tangent vectors and regular polygons hit their targets.

Engine P over lattice points / ordered pairs / triples, distances t, force_oriented, homogeneous
representatives, and (n_sides, angle | radius) for regular polygons.  Oracle: mc/oracle/hyp.py
(geodesic_point, unit_direction, angle_at, closed-form metrics) and textbook trigonometry of the
regular polygon (cosh r = cot(pi/n) cot(a/2), sinh(s/2) = sinh r sin(pi/n)).

Convention for tangent vectors: the pair (p, v) and the pair (-p, -v) are the same tangent vector
(isometries act linearly on both rows and [p] = [-p]); the geometric direction of (p, v) is
sign(p_0) * v.  "tv1 == tv2 up to a positive factor" compares base points projectively and
geometric directions after Minkowski normalisation.
"""
import math
import warnings

import numpy as np

from mc import lattice
from mc.oracle import hyp

TOL = 1e-9
TOL_SQRT = 1e-6
TS = [-2.0, -0.7, -0.1, 0.1, 0.5, 1.5]
REPS = [1.0, -1.0, 2.5, -0.3]


# ------------------------------------------------------------------------------------------
# helpers
# ------------------------------------------------------------------------------------------
def proj(k, lam=1.0):
    return lam * hyp.klein_to_projective(np.asarray(k, dtype=float))


def geometric_direction(point_row, vector_row):
    """Unit geometric direction of the library pair (point, vector)."""
    v = np.asarray(vector_row, dtype=float)
    s = np.where(np.asarray(point_row, dtype=float)[..., :1] < 0, -1.0, 1.0)
    with np.errstate(all="ignore"):
        return s * v / np.sqrt(np.abs(hyp.mink(v, v)))[..., None]


def make_tv(p_row, D, mu):
    """Library tangent vector with base representative p_row and geometric direction D (unit,
    tangent at p), length factor mu > 0."""
    from geometry_tools import hyperbolic as H
    s = -1.0 if p_row[0] < 0 else 1.0
    return H.TangentVector(H.Point(np.array(p_row, dtype=float)), np.array(s * mu * D, dtype=float))


def same_tv(tv, P_want, D_want, v, key, who):
    """tv (library TangentVector) has base point [P_want] and geometric direction D_want."""
    pt = np.asarray(tv.point)
    vec = np.asarray(tv.vector)
    if pt.shape != P_want.shape or vec.shape != D_want.shape or pt.dtype.kind != "f":
        v.append({"key": key + "/type", "msg": "%s: point %r %s, vector %r" % (who, pt.shape, pt.dtype, vec.shape)})
        return
    e = float(np.max(hyp.proj_diff(pt, P_want)))
    if not e <= TOL:
        v.append({"key": key + "/basepoint", "msg": "%s: base point %r is not %r (projective difference %.3g)" % (
            who, pt.tolist(), P_want.tolist(), e)})
        return
    D = geometric_direction(pt, vec)
    e = float(np.max(np.abs(D - D_want)))
    tol = TOL * (1.0 + float(np.max(np.abs(D_want))))
    if not e <= tol:
        opp = float(np.max(np.abs(D + D_want))) <= tol
        v.append({"key": key + ("/direction-reversed" if opp else "/direction"),
                  "msg": "%s: direction %r, expected a positive multiple of %r%s" % (
                      who, D.tolist(), D_want.tolist(), " (it is the opposite direction)" if opp else "")})


def same_point(pt, want_row, v, key, who, tol=TOL):
    data = np.asarray(pt.proj_data)
    if data.shape != want_row.shape or data.dtype.kind != "f" or not np.all(np.isfinite(data)):
        v.append({"key": key + "/type", "msg": "%s: data %r of shape %r" % (who, data.tolist(), data.shape)})
        return False
    e = float(np.max(hyp.proj_diff(data, want_row)))
    if not e <= tol:
        v.append({"key": key, "msg": "%s: got the point with Klein coordinates %r, expected %r (projective difference %.3g)" % (
            who, hyp.to_klein("projective", data).tolist(), hyp.to_klein("projective", want_row).tolist(), e)})
        return False
    return True


def repclass(*lams):
    return "negated-representative" if any(l < 0 for l in lams) else "same-sheet"


# ------------------------------------------------------------------------------------------
# origin_to of a point
# ------------------------------------------------------------------------------------------
def case_origin_to(case):
    from geometry_tools import hyperbolic as H
    n, k = case["n"], np.asarray(case["p"], dtype=float)
    v = []
    t = 0
    for lam in REPS:
        for fo in (True, False, None):
            p = H.Point(proj(k, lam))
            iso = p.origin_to() if fo is None else p.origin_to(force_oriented=fo)
            img = iso @ H.Point.get_origin(n)
            t += 2
            who = "H^%d Point(%r).origin_to(force_oriented=%r) @ origin" % (n, proj(k, lam).tolist(), fo)
            same_point(img, proj(k), v, "origin_to/Point.origin_to/%s" % repclass(lam), who)
    return {"v": v, "t": t, "o": "%d/%.3f" % (n, float(np.linalg.norm(k))), "nt": bool(np.any(k != 0))}


# ------------------------------------------------------------------------------------------
# tangent vectors: origin_to, isometry_to
# ------------------------------------------------------------------------------------------
def case_tangent_frame(case):
    """tv at p pointing to q (every representative sign / length): tv.origin_to() @ base == tv."""
    from geometry_tools import hyperbolic as H
    n, kp, kq = case["n"], np.asarray(case["p"], dtype=float), np.asarray(case["q"], dtype=float)
    P = hyp.unit_hyperboloid(proj(kp))
    D = hyp.unit_direction(proj(kp), proj(kq))
    v = []
    t = 0
    for li, lam in enumerate(REPS):
        for mu in (1.0, 0.4, 3.0):
            for fo in (True, False):
                tv = make_tv(proj(kp, lam), D, mu)
                base = H.TangentVector.get_base_tangent(n)
                img = tv.origin_to(force_oriented=fo) @ base
                t += 3
                who = "H^%d TangentVector(%r, %r).origin_to(force_oriented=%r) @ base tangent" % (
                    n, proj(kp, lam).tolist(), np.asarray(tv.vector).tolist(), fo)
                same_tv(img, P, D, v, "tangent_origin_to/TangentVector.origin_to/%s" % repclass(lam), who)
    return {"v": v[:4], "t": t, "o": "%d/%.2f" % (n, float(hyp.dist_klein(kp, kq))), "nt": True}


def case_isometry_to(case):
    from geometry_tools import hyperbolic as H
    n = case["n"]
    k1, q1, k2, q2 = [np.asarray(case[x], dtype=float) for x in ("p1", "q1", "p2", "q2")]
    D1 = hyp.unit_direction(proj(k1), proj(q1))
    D2 = hyp.unit_direction(proj(k2), proj(q2))
    P2 = hyp.unit_hyperboloid(proj(k2))
    v = []
    t = 0
    for (l1, l2) in ((1.0, 1.0), (-1.0, 1.0), (2.5, -0.3), (-0.3, -1.0)):
        for fo in (None, True, False):
            tv1 = make_tv(proj(k1, l1), D1, 0.7)
            tv2 = make_tv(proj(k2, l2), D2, 1.9)
            iso = tv1.isometry_to(tv2) if fo is None else tv1.isometry_to(tv2, force_oriented=fo)
            img = iso @ tv1
            t += 4
            who = "H^%d tv1.isometry_to(tv2%s) @ tv1 with tv1=(%r,%r) tv2=(%r,%r)" % (
                n, "" if fo is None else ", force_oriented=%r" % fo, proj(k1, l1).tolist(), np.asarray(tv1.vector).tolist(),
                proj(k2, l2).tolist(), np.asarray(tv2.vector).tolist())
            same_tv(img, P2, D2, v, "isometry_to/TangentVector.isometry_to/%s" % repclass(l1, l2), who)
    return {"v": v[:4], "t": t, "o": "%d/%.2f" % (n, float(hyp.dist_klein(k1, k2))), "nt": True}


# ------------------------------------------------------------------------------------------
# point_along, unit_tangent_towards
# ------------------------------------------------------------------------------------------
# packagings of a scalar distance / radius / angle: the same number as a Python or NumPy scalar or a 0-d array
INT_PACKS = ["int", "np.int64", "np.int32", "0d-int64", "0d-int32"]
FLOAT_PACKS = ["float", "np.float64", "np.float32", "0d-float64", "0d-float32"]
TI = [-2, 1, 3]                  # integer-valued distances (-2.0 is the integer-valued member of TS): every packaging
TF = [-0.75, 0.5, 1.5]           # exactly representable in float32: the float packagings
ARRAY_DTYPES = ["int64", "int32", "float64", "float32"]


def package(val, pack):
    if pack == "float":
        return float(val)
    if pack == "int":
        return int(val)
    head, dt = pack.split("-") if pack.startswith("0d-") else pack.split(".")
    dt = np.dtype(dt)
    val = int(val) if dt.kind == "i" else float(val)
    return np.array(val, dtype=dt) if head == "0d" else dt.type(val)


def pack_class(pack):
    """Coarse packaging class for finding keys."""
    if pack in ("float", "int"):
        return "python-" + pack
    return "numpy-integer" if "int" in pack else ("float32" if "float32" in pack else "numpy-float64")


def low_factor(pack):
    """float32 numbers are exact here, but NumPy evaluates exp / tanh / sinh of a float32 in float32 (6e-8 relative)."""
    return 1e4 if "float32" in pack else 1.0


def judge_along(data, d_lib, P_row, Q_row, tt, F, v, who, cls, prefix="point_along"):
    """The point with homogeneous row(s) `data`, claimed to lie at signed distance tt (float or array) from [P_row]
    along the geodesic towards [Q_row]; d_lib = the library's distance from the base point.  F scales the tolerances."""
    tt = np.asarray(tt, dtype=float)
    want = hyp.geodesic_point(P_row, Q_row, tt[..., None] if tt.ndim else float(tt))
    data = np.asarray(data)
    if data.shape != want.shape or data.dtype.kind != "f" or not np.all(np.isfinite(data)):
        v.append({"key": prefix + "/type", "msg": "%s: data %r of shape %r dtype %s" % (who, data.tolist(), data.shape, data.dtype)})
        return False
    # distance |t| from the base point: oracle metric on the data, and the library's distance
    d_or = np.asarray(hyp.dist_projective(data, P_row), dtype=float)
    d_lib = np.asarray(d_lib, dtype=float)
    tol = TOL * F * (1.0 + np.abs(tt)) * (np.cosh(tt) ** 2 if F > 1 else 1.0)
    if d_lib.shape != tt.shape or not (np.all(np.abs(d_or - np.abs(tt)) <= tol) and np.all(np.abs(d_lib - np.abs(tt)) <= tol)):
        v.append({"key": prefix + "/distance/%s" % cls,
                  "msg": "%s lies at distance %r (library distance %r) from the base point" % (who, d_or.tolist(), d_lib.tolist())})
        return False
    e = float(np.max(hyp.proj_diff(data, want)))
    if not e <= TOL * F:
        other = float(np.max(hyp.proj_diff(data, hyp.geodesic_point(P_row, Q_row, -tt[..., None] if tt.ndim else -float(tt)))))
        v.append({"key": prefix + "/%s/%s" % ("wrong-side" if other <= TOL * F else "off-geodesic", cls),
                  "msg": "%s = Klein %r, the geodesic point is %r" % (
                      who, hyp.to_klein("projective", data).tolist(), hyp.to_klein("projective", want).tolist())})
        return False
    return True


def case_point_along(case):
    from geometry_tools import hyperbolic as H
    n, kp, kq = case["n"], np.asarray(case["p"], dtype=float), np.asarray(case["q"], dtype=float)
    D = hyp.unit_direction(proj(kp), proj(kq))
    v = []
    t = 0
    # "packs": the packaged-distance section (integer-valued t in every packaging, float32-exact t in the float ones)
    if case.get("packs"):
        combos = [(tt, pk) for tt in TI for pk in INT_PACKS + FLOAT_PACKS] + [(tt, pk) for tt in TF for pk in FLOAT_PACKS]
        mus = (1.0,)
    else:
        combos = [(tt, "float") for tt in TS]
        mus = (1.0, 2.0)
    kinds = set()
    for lam in REPS:
        for mu in mus:
            for tt, pk in combos:
                tv = make_tv(proj(kp, lam), D, mu)
                if mu != 1.0:
                    tv = tv.normalized()
                    t += 1
                arg = package(tt, pk)
                x = tv.point_along(arg)
                t += 1
                who = "H^%d unit tangent at %r towards %r: point_along(%r)%s" % (
                    n, proj(kp, lam).tolist(), kq.tolist(), arg, "" if pk == "float" else " [distance given as %s]" % pk)
                cls = repclass(lam) + ("" if pk == "float" else "/" + pack_class(pk))
                data = np.asarray(x.proj_data)
                if data.shape != (n + 1,) or not np.all(np.isfinite(data)):
                    v.append({"key": "point_along/type", "msg": "%s: data %r" % (who, data.tolist())})
                    continue
                with warnings.catch_warnings():
                    warnings.simplefilter("ignore")
                    d_lib = float(H.Point(proj(kp, lam)).distance(x))
                t += 1
                judge_along(data, d_lib, proj(kp), proj(kq), float(tt), low_factor(pk), v, who, cls)
                kinds.add(str(data.dtype))
    if case.get("packs"):
        seen, uniq = set(), []
        for x in v:
            if x["key"] not in seen:
                seen.add(x["key"])
                uniq.append(x)
        return {"v": uniq[:8], "t": t, "o": "%d/%.2f/%s" % (n, float(hyp.dist_klein(kp, kq)), "+".join(sorted(kinds))), "nt": True}
    return {"v": v[:4], "t": t, "o": "%d/%.2f" % (n, float(hyp.dist_klein(kp, kq))), "nt": True}


def case_point_along_composite(case):
    """A composite unit tangent vector of the given shape; the distance as a scalar (every packaging: it is broadcast)
    and as an ndarray of the composite shape (integer and float dtypes), one distance per unit."""
    from geometry_tools import hyperbolic as H
    n, shape = case["n"], tuple(case["shape"])
    count = int(np.prod(shape))
    us = [case["units"][i % len(case["units"])] for i in range(count)]
    Pr = np.stack([proj(k) for (k, kq, lam) in us]).reshape(shape + (n + 1,))
    Qr = np.stack([proj(kq) for (k, kq, lam) in us]).reshape(shape + (n + 1,))
    lam = np.array([lam for (k, kq, lam) in us]).reshape(shape + (1,))
    Dg = hyp.unit_direction(Pr, Qr)
    sg = np.where(lam < 0, -1.0, 1.0)

    def fresh():
        return H.TangentVector(H.Point(lam * Pr), sg * Dg)

    v, t = [], 0
    args = [("scalar " + pk, package(tt, pk), float(tt), low_factor(pk), pack_class(pk)) for tt in TI[:2] for pk in INT_PACKS + FLOAT_PACKS]
    args += [("scalar " + pk, package(tt, pk), float(tt), low_factor(pk), pack_class(pk)) for tt in TF[:2] for pk in FLOAT_PACKS]
    for dt in ARRAY_DTYPES:
        alphabet = (TI + [2, -1]) if dt.startswith("int") else (TI + TF)
        for off in (0, 2):
            vals = np.array([alphabet[(i + off) % len(alphabet)] for i in range(count)]).reshape(shape)
            args.append(("%s array of shape %r" % (dt, shape), vals.astype(dt), vals.astype(float), low_factor(dt), "array-" + pack_class(dt)))
            if dt in ("int64", "float64") and off == 0:
                # the same distances as a nested list / nested tuple of Python numbers
                as_list = vals.astype(dt).tolist()
                tup = lambda x: tuple(tup(y) for y in x) if isinstance(x, list) else x
                args.append(("nested list (%s) of shape %r" % (dt, shape), as_list, vals.astype(float), low_factor(dt), "list-" + pack_class(dt)))
                args.append(("nested tuple (%s) of shape %r" % (dt, shape), tup(as_list), vals.astype(float), low_factor(dt), "list-" + pack_class(dt)))
    for label, arg, tt, F, pcls in args:
        tv = fresh()
        x = tv.point_along(arg)
        t += 2
        who = "H^%d composite unit tangent vector of shape %r (base points Klein %r): point_along(%r) [%s]" % (
            n, shape, [u[0] for u in us[:2]], np.asarray(arg).tolist(), label)
        data = np.asarray(x.proj_data)
        if data.shape != shape + (n + 1,) or not np.all(np.isfinite(data)):
            v.append({"key": "point_along/composite/type", "msg": "%s: data of shape %r" % (who, data.shape)})
            continue
        with warnings.catch_warnings():
            warnings.simplefilter("ignore")
            d_lib = np.asarray(H.Point(lam * Pr).distance(x))
        t += 1
        judge_along(data, d_lib, Pr, Qr, np.broadcast_to(tt, shape), F, v, who, pcls, prefix="point_along/composite")
    seen, uniq = set(), []
    for x in v:
        if x["key"] not in seen:
            seen.add(x["key"])
            uniq.append(x)
    return {"v": uniq[:8], "t": t, "o": "%d/%r/%d" % (n, shape, len(uniq)), "nt": True}


def case_tangent_towards(case):
    from geometry_tools import hyperbolic as H
    n, kp, kq = case["n"], np.asarray(case["p"], dtype=float), np.asarray(case["q"], dtype=float)
    P = hyp.unit_hyperboloid(proj(kp))
    D = hyp.unit_direction(proj(kp), proj(kq))
    d0 = float(hyp.dist_klein(kp, kq))
    v = []
    t = 0
    for lp in REPS:
        for lq in REPS:
            cls = repclass(lp, lq)
            p, q = H.Point(proj(kp, lp)), H.Point(proj(kq, lq))
            tv = p.unit_tangent_towards(q)
            t += 1
            who = "H^%d p=%r q=%r: p.unit_tangent_towards(q)" % (n, proj(kp, lp).tolist(), proj(kq, lq).tolist())
            vec = np.asarray(tv.vector)
            pt = np.asarray(tv.point)
            if vec.shape != (n + 1,) or not np.all(np.isfinite(vec)):
                v.append({"key": "tangent_towards/type", "msg": "%s: vector %r" % (who, vec.tolist())})
                continue
            nv = float(hyp.mink(vec, vec))
            ov = float(hyp.mink(vec, pt)) / math.sqrt(abs(float(hyp.mink(pt, pt))))
            if not (abs(nv - 1.0) <= TOL * (1 + float(vec @ vec)) and abs(ov) <= TOL * (1 + float(vec @ vec))):
                v.append({"key": "tangent_towards/unit-tangent/%s" % cls,
                          "msg": "%s: <v,v> = %.12g, <v,p>/|p| = %.3g" % (who, nv, ov)})
            n0 = len(v)
            same_tv(tv, P, D, v, "tangent_towards/unit_tangent_towards/%s" % cls, who)
            # the property's composite statement (as in the suite's test_point_along): arrive at q
            with warnings.catch_warnings():
                warnings.simplefilter("ignore")
                d = p.distance(q)
            x = tv.point_along(d)
            t += 2
            if not abs(float(d) - d0) <= TOL * (1 + d0):
                continue        # a wrong distance is C01's finding
            ok = same_point(x, proj(kq), v, "tangent_towards/point_along-arrives/%s" % cls,
                            who + ".point_along(p.distance(q))")
            if len(v) > n0 + 1:
                del v[n0 + 1:]       # one line per representative pair
    return {"v": v[:6], "t": t, "o": "%d/%.2f" % (n, d0), "nt": True}


# ------------------------------------------------------------------------------------------
# angle
# ------------------------------------------------------------------------------------------
def case_angle(case):
    from geometry_tools import hyperbolic as H
    n, ka = case["n"], np.asarray(case["a"], dtype=float)
    pts = [np.asarray(x, dtype=float) for x in case["pts"]]
    others = [k for k in pts if not np.array_equal(k, ka)]
    v = []
    t = 0
    seen = set()
    outcomes = [0, 0, 0]
    for i, kb in enumerate(others):
        for j, kc in enumerate(others):
            lb, lc = REPS[(i + j) % 4], REPS[(i + 2 * j + 1) % 4]
            la = REPS[(i * j) % 4]
            a = H.Point(proj(ka, la))
            tb = a.unit_tangent_towards(H.Point(proj(kb, lb)))
            tc = a.unit_tangent_towards(H.Point(proj(kc, lc)))
            if (i + j) % 3 == 0:       # angle() must not depend on the lengths
                tc = H.TangentVector(H.Point(np.asarray(tc.point).copy()), 2.5 * np.asarray(tc.vector))
            # (p, v) and (-p, -v) are the same tangent vector: negate whole units independently
            if (i + 2 * j) % 4 == 1:
                tc = H.TangentVector(-np.asarray(tc.proj_data))
            if (3 * i + j) % 4 == 2:
                tb = H.TangentVector(-np.asarray(tb.proj_data))
            with warnings.catch_warnings():
                warnings.simplefilter("ignore")
                ang = tb.angle(tc)
            t += 3
            want = float(hyp.angle_at(ka, kb, kc))
            cw = math.cos(want)
            degenerate = abs(abs(cw) - 1.0) < 1e-9
            kind = "parallel-directions" if degenerate else "generic"
            outcomes[0 if not degenerate else (1 if cw > 0 else 2)] += 1
            who = "H^%d angle at %r between the unit tangents towards %r and %r" % (
                n, proj(ka, la).tolist(), proj(kb, lb).tolist(), proj(kc, lc).tolist())
            arr = np.asarray(ang)
            if arr.shape != () or arr.dtype.kind != "f":
                key, msg = "angle/type", "%s has shape %r dtype %s" % (who, arr.shape, arr.dtype)
            elif float(ang) != float(ang):
                key, msg = "angle/nan/%s" % kind, "%s is NaN (law of cosines: %.12g)" % (who, want)
            elif not (abs(math.cos(float(ang)) - cw) <= TOL and -1e-12 <= float(ang) <= math.pi + 1e-12):
                key, msg = "angle/law-of-cosines/%s" % kind, "%s = %.12g, law of cosines on oracle distances gives %.12g" % (who, float(ang), want)
            elif degenerate and not abs(float(ang) - want) <= TOL_SQRT:
                key, msg = "angle/law-of-cosines/%s" % kind, "%s = %.12g, expected %.12g" % (who, float(ang), want)
            else:
                continue
            if key not in seen:
                seen.add(key)
                v.append({"key": key, "msg": msg})
    return {"v": v, "t": t, "o": "%d/%r" % (n, outcomes), "nt": True}


# ------------------------------------------------------------------------------------------
# regular polygons
# ------------------------------------------------------------------------------------------
def oracle_radius(ns, a):
    return math.acosh(1.0 / (math.tan(math.pi / ns) * math.tan(a / 2.0)))


def oracle_angle(ns, r):
    return 2.0 * math.atan(1.0 / (math.cosh(r) * math.tan(math.pi / ns)))


def case_polygon(case):
    from geometry_tools import hyperbolic as H
    ns, mode, val, dim = case["sides"], case["mode"], case["value"], case["dimension"]
    pack = case.get("pack", "float")
    arg = package(val, pack)                     # the same number as a Python / NumPy scalar or 0-d array
    val = float(val)
    F = low_factor(pack)
    TOL = globals()["TOL"] * F
    v = []
    kw = {} if dim == 2 else {"dimension": dim}
    if mode == "angle":
        poly = H.Polygon.regular_polygon(ns, angle=arg, **kw)
        a, r = val, oracle_radius(ns, val)
    else:
        poly = H.Polygon.regular_polygon(ns, radius=arg, **kw)
        a, r = oracle_angle(ns, val), val
    t = 1
    who = "regular_polygon(%d, %s=%r%s)%s" % (ns, mode, arg, "" if dim == 2 else ", dimension=%d" % dim,
                                               "" if pack == "float" else " [%s given as %s]" % (mode, pack))
    cls = "by-" + mode + ("" if pack == "float" else "/" + pack_class(pack))
    verts = poly.get_vertices()
    K = np.asarray(verts.coords("klein"))
    t += 2
    if K.shape != (ns, dim) or K.dtype.kind != "f" or not np.all(np.isfinite(K)):
        return {"v": [{"key": "polygon/vertices-type/%s" % cls, "msg": "%s: vertex Klein coordinates of shape %r dtype %s" % (who, K.shape, K.dtype)}],
                "t": t, "o": "bad", "nt": True}
    tol = TOL * (1.0 + r) * math.cosh(r) ** 2
    origin = np.zeros(dim)
    # equal circumradii (oracle metric and library distance)
    rad = hyp.dist_klein(K, origin)
    with warnings.catch_warnings():
        warnings.simplefilter("ignore")
        rad_lib = np.asarray(verts.distance(H.Point.get_origin(dim)))
        side_lib = np.asarray(verts.distance(H.Point(np.roll(np.asarray(verts.proj_data), -1, axis=0).copy())))
    t += 2
    for nm, arr in (("oracle metric", rad), ("Point.distance", rad_lib)):
        if arr.shape != (ns,) or not np.all(np.abs(arr - r) <= tol):
            v.append({"key": "polygon/circumradius/%s" % cls,
                      "msg": "%s: vertex distances from the origin (%s) %r, expected all %.12g" % (who, nm, np.asarray(arr).tolist(), r)})
            break
    # equal sides
    s = 2.0 * math.asinh(math.sinh(r) * math.sin(math.pi / ns))
    side = hyp.dist_klein(K, np.roll(K, -1, axis=0))
    for nm, arr in (("oracle metric", side), ("Point.distance", side_lib)):
        if arr.shape != (ns,) or not np.all(np.abs(arr - s) <= tol):
            v.append({"key": "polygon/sides/%s" % cls,
                      "msg": "%s: side lengths (%s) %r, expected all %.12g" % (who, nm, np.asarray(arr).tolist(), s)})
            break
    # interior angle: law of cosines on oracle distances of consecutive vertices
    ang = hyp.angle_at(K, np.roll(K, 1, axis=0), np.roll(K, -1, axis=0))
    if not np.all(np.abs(np.cos(ang) - math.cos(a)) <= TOL * math.cosh(r) ** 2):
        v.append({"key": "polygon/interior-angle/%s" % cls,
                  "msg": "%s: interior angles %r, expected all %.12g" % (who, ang.tolist(), a)})
    # the edges of the Polygon object join consecutive vertices
    E = np.asarray(poly.get_edges().proj_data)
    t += 1
    Vd = np.asarray(poly.proj_data)
    if E.shape[:2] != (ns, 2) or not (np.max(hyp.proj_diff(E[:, 0, :], Vd)) <= TOL and
                                      np.max(hyp.proj_diff(E[:, 1, :], np.roll(Vd, -1, axis=0))) <= TOL):
        v.append({"key": "polygon/edges/%s" % cls, "msg": "%s: edges do not join consecutive vertices" % who})
    # the two formulas
    if mode == "angle":
        rl = H.regular_polygon_radius(ns, arg)
        back = H.polygon_interior_angle(ns, rl)
        t += 2
        if not abs(float(rl) - r) <= TOL * (1 + r):
            v.append({"key": "polygon/regular_polygon_radius", "msg": "regular_polygon_radius(%d, %r) = %.12g, expected %.12g" % (ns, val, float(rl), r)})
        if not abs(float(back) - val) <= TOL:
            v.append({"key": "polygon/formulas-inverse/angle-radius-angle",
                      "msg": "polygon_interior_angle(%d, regular_polygon_radius(%d, %r)) = %.12g" % (ns, ns, val, float(back))})
    else:
        al = H.polygon_interior_angle(ns, arg)
        back = H.regular_polygon_radius(ns, al)
        t += 2
        if not abs(float(al) - a) <= TOL:
            v.append({"key": "polygon/polygon_interior_angle", "msg": "polygon_interior_angle(%d, %r) = %.12g, expected %.12g" % (ns, val, float(al), a)})
        if not abs(float(back) - val) <= TOL * (1 + val) * math.cosh(val) ** 2:
            v.append({"key": "polygon/formulas-inverse/radius-angle-radius",
                      "msg": "regular_polygon_radius(%d, polygon_interior_angle(%d, %r)) = %.12g" % (ns, ns, val, float(back))})
    return {"v": v, "t": t, "o": "%d/%d/%s/%.4f/%.4f/%s" % (ns, dim, mode, r, a, pack), "nt": True}


# ------------------------------------------------------------------------------------------
# histories: the result of a construction depends on the object's CURRENT data only, not on what was asked of
# it (or of the object it was derived from) before.  Engine E: a composite (2,) unit tangent vector is taken
# through every sequence of queries / isometries / copies / item access up to the depth bound; the model
# state (base points P and unit directions D as hyperboloid rows) is transformed alongside, and in every
# reached state point_along and origin_to are compared with the geodesic point cosh(t) P + sinh(t) D / with (P, D).
# ------------------------------------------------------------------------------------------
H_QUERY_T = 0.6
H_TS = [0.8, -1.3]
H_ANGLE = 0.7
H_OPS_ANY = [["pa"], ["ot"], ["an"], ["g", 0], ["g", 1], ["copy"], ["norm"]]
H_OPS_COMPOSITE = [["set0"], ["rev"], ["get1"]]
H_LENGTHS = [1.0, 2.5, 0.4]       # Minkowski lengths of the tangent vectors the histories start from / assign


def lorentz(n, which):
    """Two fixed isometries as matrices acting on column vectors (x0, x1..xn): a boost, and an
    orientation-reversing boost * rotation * reflection."""
    def boost(w, r):
        w = np.asarray(w, dtype=float)
        w = w / np.linalg.norm(w)
        A = np.eye(n + 1)
        A[0, 0] = math.cosh(r)
        A[0, 1:] = A[1:, 0] = math.sinh(r) * w
        A[1:, 1:] += (math.cosh(r) - 1.0) * np.outer(w, w)
        return A
    if which == 0:
        return boost([1.0, 2.0, -1.0, 0.5, 0.3][:n], 0.9)
    R = np.eye(n + 1)
    c, sn = math.cos(1.1), math.sin(1.1)
    R[1:3, 1:3] = [[c, -sn], [sn, c]]
    R[:, n] = -R[:, n]
    return boost([-0.4, 1.0, 0.7, -1.5, 0.2][:n], 0.6) @ R


def case_history(hist):
    from geometry_tools import hyperbolic as H
    root = hist[0]
    n = root[1]
    units = []
    for (k, kq, lam, *rest) in root[2:]:
        k, kq = np.asarray(k, dtype=float), np.asarray(kq, dtype=float)
        units.append((proj(k, lam), hyp.unit_hyperboloid(proj(k)), hyp.unit_direction(proj(k), proj(kq)), float(rest[0]) if rest else 1.0))

    def rows(us):
        pr = np.stack([u[0] for u in us])
        sg = np.where(pr[:, :1] < 0, -1.0, 1.0)
        return pr, sg * np.stack([u[3] * u[2] for u in us])

    def length_problem(tv, M):
        """The Minkowski length of tv's vector row(s) against the model lengths M (None if equal)."""
        vec = np.asarray(tv.vector, dtype=float)
        with np.errstate(all="ignore"):
            got = np.sqrt(np.abs(hyp.mink(vec, vec)))
        if got.shape != M.shape or not np.all(np.abs(got - M) <= TOL * (1.0 + np.sum(vec * vec, axis=-1))):
            return "the vector has Minkowski length %r, expected %r" % (got.tolist(), M.tolist())
        return None

    pr, vr = rows(units[:2])
    tv = H.TangentVector(H.Point(pr), vr)
    t = 1
    P = np.stack([u[1] for u in units[:2]])          # model state
    D = np.stack([u[2] for u in units[:2]])
    M = np.array([u[3] for u in units[:2]])           # lengths: isometries, copies and QUERIES keep them, normalized() gives 1
    earlier = []                                      # earlier model states (for the diagnosis "stale")
    queried = False                                   # some query was made on an ancestor of the current object
    last = "build"
    names = []
    for op in hist[1:]:
        o = op[0]
        names.append(o + ("%d" % op[1] if len(op) > 1 else ""))
        if o == "pa":
            tv.point_along(H_QUERY_T)
            queried = True
        elif o == "ot":
            tv.origin_to()
            queried = True
        elif o == "an":
            with warnings.catch_warnings():
                warnings.simplefilter("ignore")
                tv.angle(tv)
            queried = True
        else:
            earlier.append((P.copy(), D.copy()))
            last = o
            if o == "g":
                A = lorentz(n, op[1])
                tv = H.Isometry(A.T.copy()) @ tv
                P, D = P @ A.T, D @ A.T
                t += 1
            elif o == "copy":
                tv = H.TangentVector(tv)
            elif o == "norm":
                tv = tv.normalized()
                M = np.ones_like(M)
            elif o == "set0":
                spr, svr = rows(units[2:3])
                tv[0] = H.TangentVector(H.Point(spr[0]), svr[0])
                P, D, M = P.copy(), D.copy(), M.copy()
                P[0], D[0], M[0] = units[2][1], units[2][2], units[2][3]
                t += 1
            elif o == "rev":
                tv = tv[::-1]
                P, D, M = P[::-1].copy(), D[::-1].copy(), M[::-1].copy()
            elif o == "get1":
                tv = tv[1]
                P, D, M = P[1].copy(), D[1].copy(), M[1].copy()
            else:
                raise AssertionError("HARNESS: unknown op %r" % (op,))
        t += 1
    composite = P.ndim == 2
    v = []
    who = "H^%d tangent vectors %r after [%s]" % (n, [[np.asarray(u[0]).round(6).tolist(), np.asarray(u[2]).round(6).tolist()] for u in units[:2]], ", ".join(names))
    hidden = "queried-before" if queried else "never-queried"
    # the object's data is the model state
    same_tv(tv, P, D, v, "history/data/after-%s" % last, who)
    if not v:
        # ... including its LENGTH (same_tv compares directions): a tangent vector of length 2.5 that was asked for a point
        # along it, for its frame or for an angle is still the tangent vector of length 2.5
        bad = length_problem(tv, M)
        if bad:
            v.append({"key": "history/length/after-%s/%s" % (last, hidden), "msg": "%s: %s" % (who, bad)})
    if v:
        return {"v": v, "t": t, "key": repr(hist), "ops": [], "o": "data", "nt": len(hist) > 1}
    for tt in H_TS:
        x = tv.point_along(tt)
        t += 1
        data = np.asarray(x.proj_data)
        want = math.cosh(tt) * P + math.sinh(tt) * D
        if data.shape != want.shape or data.dtype.kind != "f" or not np.all(np.isfinite(data)):
            v.append({"key": "history/point_along/type", "msg": "%s: point_along(%r) has data of shape %r: %r" % (who, tt, data.shape, data.tolist())})
            break
        e = float(np.max(hyp.proj_diff(data, want)))
        if not e <= TOL:
            stale = any(Pe.shape == P.shape and float(np.max(hyp.proj_diff(data, math.cosh(tt) * Pe + math.sinh(tt) * De))) <= TOL
                        for (Pe, De) in earlier)
            d_base = hyp.dist_projective(data, P)
            v.append({"key": "history/point_along/%s/after-%s/%s" % ("stale" if stale else "wrong", last, hidden),
                      "msg": "%s: point_along(%r) = Klein %r, the geodesic point is %r (distance from the base point %r)%s" % (
                          who, tt, hyp.to_klein("projective", data).tolist(), hyp.to_klein("projective", want).tolist(),
                          np.asarray(d_base).tolist(), "; it is the answer for the tangent vector of an earlier state" if stale else "")})
            break
    n0 = len(v)
    img = tv.origin_to() @ H.TangentVector.get_base_tangent(n)
    t += 3
    same_tv(img, P, D, v, "history/origin_to/after-%s/%s" % (last, hidden), who + ": origin_to() @ base tangent")
    # angle with a freshly built tangent vector at the same base points (same representatives), at angle H_ANGLE
    # E: unit tangent at P orthogonal to D, the normalised projection of the spatial basis vector e_j whose
    # projection is longest (the squared lengths of the n projections add up to >= n - 1, so it is >= 1/2)
    cand = []
    for j in range(1, n + 1):
        w = np.zeros(n + 1)
        w[j] = 1.0
        cand.append(w + hyp.mink(w, P)[..., None] * P - hyp.mink(w, D)[..., None] * D)
    cand = np.stack(cand)                                               # (n,) + P.shape
    jbest = np.argmax(hyp.mink(cand, cand), axis=0)                     # P.shape[:-1]
    E = np.take_along_axis(cand, jbest[None, ..., None], axis=0)[0]
    nE = hyp.mink(E, E)
    if not np.all(nE >= 0.5 - 1e-6):
        raise AssertionError("HARNESS: no spatial basis vector has a long projection: %r" % (nE.tolist(),))
    E = E / np.sqrt(nE)[..., None]
    D2 = math.cos(H_ANGLE) * D + math.sin(H_ANGLE) * E
    sg = np.where(np.asarray(tv.point)[..., :1] < 0, -1.0, 1.0)
    tv2 = H.TangentVector(H.Point(sg * P), sg * D2)
    with warnings.catch_warnings():
        warnings.simplefilter("ignore")
        ang = np.asarray(tv.angle(tv2))
    t += 2
    if ang.shape != P.shape[:-1] or ang.dtype.kind != "f":
        v.append({"key": "history/angle/type", "msg": "%s: angle(...) has shape %r dtype %s" % (who, ang.shape, ang.dtype)})
    elif not np.all(np.abs(np.cos(ang) - math.cos(H_ANGLE)) <= TOL * (1.0 + float(np.max(np.abs(P))) ** 2)):
        v.append({"key": "history/angle/after-%s/%s" % (last, hidden),
                  "msg": "%s: angle with the tangent vector turned by %r in the plane towards e_j, j = %r, is %r" % (
                      who, H_ANGLE, (jbest + 1).tolist(), ang.tolist())})
    if not v:
        # the evaluations above (point_along, origin_to, angle as receiver; tv2 as argument of angle) are queries too
        bad = length_problem(tv, M) or length_problem(tv2, np.ones_like(M))
        if bad:
            v.append({"key": "history/length/after-the-state-queries", "msg": "%s: after point_along / origin_to / angle in this state %s" % (who, bad)})
    ops = [] if v else H_OPS_ANY + (H_OPS_COMPOSITE if composite else [])
    return {"v": v, "t": t, "key": repr(hist), "ops": ops,
            "o": "%d/%s/%s/%s" % (n, last, hidden, "composite" if composite else "single"), "nt": len(hist) > 1}


def history_roots(lat, dims, nconf):
    roots = []
    for n in dims:
        L = lat[n]
        N = len(L)
        for c in range(nconf):
            us = []
            for j, (a, b) in enumerate(((3 * c + 1, 3 * c + 2), (5 * c + 4, 5 * c + 7), (7 * c + 3, 7 * c + 9))):
                a, b = a % N, b % N
                if a == b:
                    b = (b + 1) % N
                us.append([L[a], L[b], REPS[(c + j) % 4], H_LENGTHS[(c + 2 * j) % 3]])
            roots.append([["root", n] + us])
    return roots


# ------------------------------------------------------------------------------------------
def run(ctx):
    # the full exploration takes ~25 s on 16 cores, so the quick tier runs the thorough bounds as well
    q = False
    seed = ctx.seed
    dims = [2, 3, 4] if q else [2, 3, 4, 5]
    deep = not ctx.quick           # thorough tier: denser lattice, histories one op deeper
    mgen = 4 if q else (22 if deep else 14)
    ctx.rule = ("lattice points CORNER(n)+GENERIC(n) (Klein radius <= 0.9), every point / ordered pair / triple, every "
                "representative lambda in {1,-1,2.5,-0.3}, t in %r, force_oriented in {default, True, False}; regular polygons "
                "for every n_sides in 3..12 x 5 admissible angles / 3 radii.  Non-trivial: every case except the origin in "
                "origin_to" % (TS,))
    ctx.assume("tangent vectors handed to the library are Minkowski-orthogonal to their base point; (p, v) and (-p, -v) denote "
               "the same tangent vector, whose geometric direction is sign(p_0) v")
    ctx.assume("points are interior with Klein radius <= 0.9, distinct for directions; float coordinates")
    ctx.assume("in H^1 a tangent vector determines its isometry, so force_oriented cannot be honoured there: the sections h1-* demand the image of the base tangent vector (the property's statement) for every value of force_oriented and make no demand on the determinant")
    ctx.assume("regular_polygon is called with a scalar angle or radius only (Python float / int, NumPy float64 / float32 / int64 / int32 "
               "scalars and 0-d arrays; no int8/int16, whose exp NumPy evaluates in half/single precision); angle in (0, (n-2)pi/n)")
    ctx.assume("distances t are real numbers packaged as Python float / int, NumPy float64 / float32 / int64 / int32 scalars or 0-d arrays, "
               "or (composite tangent vectors) ndarrays of those dtypes of the composite shape")
    ctx.tolerances["float32 parameters"] = ("a distance / radius / angle given as float32 is an exact number, but NumPy evaluates exp, sinh, "
                                            "arcsin of it in float32: all tolerances x 1e4 (x cosh^2 t for the distance of point_along), measured 1e-7")
    ctx.tolerances["projective equality"] = "1e-9 on Euclidean-normalised rows (measured 1e-15)"
    ctx.tolerances["distances"] = "1e-9*(1+|t|); polygon distances 1e-9*(1+r)*cosh(r)^2 (vertices at Klein radius tanh r <= 0.987)"
    ctx.tolerances["angles"] = "|cos(angle) - cos(oracle)| <= 1e-9 (polygons: 1e-9*cosh(r)^2); for parallel directions additionally |angle - oracle| <= 1e-6 (arccos near +-1)"

    lat = {n: [p.tolist() for p in lattice.klein_points(n, mgen, seed)] for n in dims}
    dom = {"dimensions": dims, "points per dimension": {n: len(lat[n]) for n in dims}, "representatives": REPS}

    ctx.product("origin-to", "checks.c13:case_origin_to", [{"n": n, "p": p} for n in dims for p in lat[n]],
                chunk=4, domains=dict(dom, force_oriented=["default", True, False]))
    pairs = [{"n": n, "p": p, "q": qq} for n in dims for i, p in enumerate(lat[n]) for j, qq in enumerate(lat[n]) if i != j]
    ctx.product("tangent-origin-to", "checks.c13:case_tangent_frame", pairs, chunk=8,
                domains=dict(dom, lengths=[1.0, 0.4, 3.0], force_oriented=[True, False]))
    iso_cases = []
    for n in dims:
        L = lat[n]
        N = len(L)
        for i in range(N):
            for j in range(N):
                if i != j:
                    iso_cases.append({"n": n, "p1": L[i], "q1": L[(i + 1) % N], "p2": L[j], "q2": L[(j + 2) % N]})
                else:
                    iso_cases.append({"n": n, "p1": L[i], "q1": L[(i + 1) % N], "p2": L[i], "q2": L[(i + 3) % N]})
    ctx.product("isometry-to", "checks.c13:case_isometry_to", iso_cases, chunk=8,
                domains=dict(dom, force_oriented=["default", True, False], note="tv_i at p_i towards p_(i+1); all ordered pairs (tv_i, tv_j)"))
    ctx.product("point-along", "checks.c13:case_point_along", pairs, chunk=8, domains=dict(dom, t=TS))
    # packaged distances: every point with two partners; composite tangent vectors with scalar and array distances
    ppairs = [{"n": n, "p": lat[n][i], "q": lat[n][(i + s) % len(lat[n])], "packs": True}
              for n in dims for i in range(len(lat[n])) for s in (1, 3)]
    ctx.product("point-along-packaged-distance", "checks.c13:case_point_along", ppairs, chunk=4,
                domains=dict(dom, integer_valued_t=TI, float32_exact_t=TF, integer_packagings=INT_PACKS, float_packagings=FLOAT_PACKS,
                             note="integer-valued t in all 10 packagings, the other t in the 5 float packagings; pairs (p_i, p_(i+1)), (p_i, p_(i+3))"))
    comp = []
    for n in dims:
        L = lat[n]
        N = len(L)
        for c in range(6):
            units = [[L[(3 * c + 2 * j + 1) % N], L[(3 * c + 2 * j + 2) % N], REPS[(c + j) % 4]] for j in range(5)]
            for shape in ([3], [2, 2], [1], [2, 1, 2]):
                comp.append({"n": n, "shape": shape, "units": units})
    ctx.product("point-along-composite", "checks.c13:case_point_along_composite", comp, chunk=2,
                domains=dict(dom, shapes=[[3], [2, 2], [1], [2, 1, 2]], configurations_per_dimension=6,
                             scalar_distances="t in %r x all packagings, t in %r x float packagings (broadcast over the composite)" % (TI[:2], TF[:2]),
                             array_distances="ndarrays of the composite shape, dtypes %r, entries cycling through the t alphabet (two offsets)" % (ARRAY_DTYPES,)))
    ctx.product("unit-tangent-towards", "checks.c13:case_tangent_towards", pairs, chunk=8,
                domains=dict(dom, note="all 16 representative pairs of (p, q)"))
    # H^1: the frame (base point, vector) of a tangent vector is a full basis of R^(1,1), so the isometry is determined by the tangent
    # vector and no orientation can be forced on it (wave 10 report: origin_to(force_oriented=True), the default, reversed every
    # tangent vector pointing in the negative direction, and point_along walked the wrong way)
    L1 = [p.tolist() for p in lattice.klein_points(1, mgen, seed)]
    N1 = len(L1)
    dom1 = {"dimension": 1, "points": N1, "representatives": REPS}
    pairs1 = [{"n": 1, "p": p, "q": qq} for i, p in enumerate(L1) for j, qq in enumerate(L1) if i != j]
    ctx.product("h1-origin-to", "checks.c13:case_origin_to", [{"n": 1, "p": p} for p in L1], chunk=4,
                domains=dict(dom1, force_oriented=["default", True, False]))
    ctx.product("h1-tangent-origin-to", "checks.c13:case_tangent_frame", pairs1, chunk=8,
                domains=dict(dom1, lengths=[1.0, 0.4, 3.0], force_oriented=[True, False], note="all ordered pairs: both directions at every base point"))
    ctx.product("h1-isometry-to", "checks.c13:case_isometry_to",
                [{"n": 1, "p1": L1[i], "q1": L1[(i + a) % N1], "p2": L1[j], "q2": L1[(j + b) % N1]}
                 for i in range(N1) for j in range(N1) if i != j for a, b in ((1, 2), (2, 1))], chunk=8,
                domains=dict(dom1, force_oriented=["default", True, False], note="tv_i at p_i towards p_(i+a), all ordered pairs (i, j), (a, b) in {(1,2),(2,1)}"))
    ctx.product("h1-point-along", "checks.c13:case_point_along", pairs1, chunk=8, domains=dict(dom1, t=TS))
    ctx.product("h1-unit-tangent-towards", "checks.c13:case_tangent_towards", pairs1, chunk=8,
                domains=dict(dom1, note="all 16 representative pairs of (p, q)"))
    ctx.product("angles", "checks.c13:case_angle", [{"n": n, "a": a, "pts": lat[n]} for n in dims for a in lat[n]],
                chunk=1, domains=dict(dom, triples={n: len(lat[n]) * (len(lat[n]) - 1) ** 2 for n in dims},
                                      note="all (a; b, c) with b, c != a, including b = c and collinear triples"))
    poly = []
    for ns in range(3, 13):
        amax = (ns - 2) * math.pi / ns
        for f in (0.1, 0.3, 0.5, 0.7, 0.9):
            poly.append({"sides": ns, "mode": "angle", "value": f * amax, "dimension": 2})
        for r in (0.3, 1.0, 2.5):
            poly.append({"sides": ns, "mode": "radius", "value": r, "dimension": 2})
    for ns in ((3, 5) if q else (3, 4, 7, 12)):
        if True:
            amax = (ns - 2) * math.pi / ns
            for dim in ((3,) if q else (3, 4, 5)):
                poly.append({"sides": ns, "mode": "angle", "value": 0.5 * amax, "dimension": dim})
                poly.append({"sides": ns, "mode": "radius", "value": 1.0, "dimension": dim})
    # integer-valued radius 1, 2 and angle 1 (admissible for every n >= 3: 1 < pi/3) in every scalar packaging
    for ns in range(3, 13):
        for dim in (2, 3):
            for pk in INT_PACKS + FLOAT_PACKS[1:]:
                poly.append({"sides": ns, "mode": "radius", "value": 1, "dimension": dim, "pack": pk})
                poly.append({"sides": ns, "mode": "radius", "value": 2, "dimension": dim, "pack": pk})
                poly.append({"sides": ns, "mode": "angle", "value": 1, "dimension": dim, "pack": pk})
    for ns in (3, 4, 7, 12):
        for dim in (4, 5):
            for pk in ("int", "np.int64", "0d-int32"):
                poly.append({"sides": ns, "mode": "radius", "value": 2, "dimension": dim, "pack": pk})
    ctx.product("regular-polygons", "checks.c13:case_polygon", poly, chunk=2,
                domains={"n_sides": "3..12", "angle fractions of (n-2)pi/n": [0.1, 0.3, 0.5, 0.7, 0.9], "radii": [0.3, 1.0, 2.5],
                         "dimension": [2, 3] if q else [2, 3, 4, 5],
                         "integer-valued radius 1, 2 / angle 1": "packaged as %r, dimensions 2, 3 (radius 2 also in 4, 5)" % (INT_PACKS + FLOAT_PACKS[1:],)})

    hdepth = 4 if deep else 3
    roots = history_roots(lat, dims, 3 if q else 8)
    ctx.bfs("histories", "checks.c13:case_history", roots, depth=hdepth, chunk=32,
            domains={"dimensions": dims, "root configurations per dimension": 3 if q else 8, "depth": hdepth,
                     "ops": H_OPS_ANY + H_OPS_COMPOSITE,
                     "op meaning": {"pa": "query point_along(%r), result discarded" % H_QUERY_T, "ot": "query origin_to(), result discarded", "an": "query angle(tv), result discarded",
                                    "g": "tv = g @ tv for a boost (0) / an orientation-reversing isometry (1)", "copy": "tv = TangentVector(tv)",
                                    "norm": "tv = tv.normalized()", "set0": "tv[0] = a third tangent vector", "rev": "tv = tv[::-1]", "get1": "tv = tv[1]"},
                     "state": "composite (2,) unit tangent vector (single after get1); no merging of histories (key = history)",
                     "lengths": "the three tangent vectors of a root have Minkowski lengths from %r; the model tracks them (queries keep, normalized() -> 1)" % (H_LENGTHS,),
                     "checked in every state": "object data incl. vector length (before and after the state's own queries), point_along(t) for t in %r, origin_to() @ base tangent, angle with a fresh tangent vector turned by %r" % (H_TS, H_ANGLE)})
    ctx.assume("histories: tangent vectors start with Minkowski lengths in %r and keep them under isometries, copies, item access and every query "
               "(normalized() returns length 1); point_along / origin_to / angle are judged on the direction only (they normalise internally); base "
               "points reach hyperbolic distance <= ~4 from the origin after three isometries" % (H_LENGTHS,))
    ctx.tolerances["histories"] = "1e-9 projective difference on Euclidean-normalised rows / 1e-9*(1+|D|) on directions (measured <= 1e-12)"
