#!/venv/bin/python
"""Run the repository's pinned baseline (optionally on another tree) and compare with
BASELINE.json's stable_pass list.  usage: baseline.py [repo_dir]"""
import json, os, subprocess, sys, tempfile, xml.etree.ElementTree as ET
repo = sys.argv[1] if len(sys.argv) > 1 else "/repo"
base = json.load(open("/root/.vp/BASELINE.json"))
with tempfile.TemporaryDirectory() as td:
    x = os.path.join(td, "j.xml")
    env = dict(os.environ)
    env.pop("GEOMETRY_TOOLS_VERIF", None)
    if repo != "/repo":
        env["PYTHONPATH"] = repo
    r = subprocess.run(["/venv/bin/python", "-m", "pytest", "-ra", "-q", "-p", "no:cacheprovider", "--timeout=900",
                        "--continue-on-collection-errors", "--junitxml=" + x], cwd=repo, env=env,
                       capture_output=True, text=True)
    passed = set()
    for tc in ET.parse(x).getroot().iter("testcase"):
        if not any(ch.tag in ("failure", "error", "skipped") for ch in tc):
            passed.add(tc.get("classname") + "::" + tc.get("name"))
missing = [t for t in base["stable_pass"] if t not in passed]
print("baseline: %d/%d stable tests pass; newly passing extras: %d" % (
    len(base["stable_pass"]) - len(missing), len(base["stable_pass"]), len(passed - set(base["stable_pass"]))))
for m in missing:
    print("  MISSING " + m)
sys.exit(1 if missing else 0)
