#!/venv/bin/python
"""Writes /verif/DETECTION.md: which check catches which seeded defect / mutant (from seeded/*/verify.json, meta.json and mutants/)."""
import glob, json, os
V = "/verif"
rows = []
for d in sorted(glob.glob(V + "/seeded/*/")):
    name = os.path.basename(d.rstrip("/"))
    try:
        m = json.load(open(d + "meta.json")); r = json.load(open(d + "verify.json"))
    except Exception:
        continue
    for c, cr in r.get("checks", {}).items():
        key = (cr.get("first_keys") or [""])[0]
        key = key.split("key=")[1].split(" ::")[0] if "key=" in key else ""
        rows.append((m.get("property"), name, (m.get("needs") or "")[:140].replace("|", "/").replace("\n", " "), c,
                     ("retired / out of scope (see meta.json verifier_note)" if m.get("verifier_note", "").startswith("Not a violation")
                      else ("caught" if cr.get("exit") == 1 and cr.get("violation_lines", 0) >= 1 else "MISSED")), key))
out = ["# Detection record", "",
       "Independently seeded defects (written by sub-agents that saw only the property text and a scratch worktree; each verified: demo passes on the",
       "clean tree, fails with the patch, 79/79 baseline tests stay green) and the check result on a scratch copy with the patch applied",
       "(`tools/verify_seed.py`, quick tier).  `first violation key` is the first key the check printed.  Seeds marked retired were valid when written and",
       "caught then; later `fix:` commits made their mechanism impossible or harmless (the note in meta.json names the commit); patches that stopped applying",
       "after the fixes were rebased onto the same mechanism (original kept as patch.orig.diff).", "",
       "| property | seeded defect | needs | check | result | first violation key |", "|---|---|---|---|---|---|"]
for r in rows:
    out.append("| %s | %s | %s | %s | %s | `%s` |" % r)
out += ["", "Seeds that were missed when first run and the strengthening they triggered are listed in DESIGN.md section 11.4.", "",
        "## Mutants written by the check authors (`mutants/*.patch`, each verified with `tools/mutant.sh`: baseline green, check exits 1)", ""]
by = {}
for p in sorted(glob.glob(V + "/mutants/*.patch")):
    b = os.path.basename(p)[:-6]
    by.setdefault(b.split("-")[0], []).append(b.split("-", 1)[1])
for k in sorted(by):
    out.append("* **%s**: %s" % (k, ", ".join(by[k])))
open(V + "/DETECTION.md", "w").write("\n".join(out) + "\n")
print("rows", len(rows), "caught", sum(1 for r in rows if r[4] == "caught"), "missed", sum(1 for r in rows if r[4] != "caught"))
