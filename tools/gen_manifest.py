#!/venv/bin/python
"""Regenerates MANIFEST.json from the table below (keeps it schema-valid at all times)."""
import json, os, subprocess
HERE = os.path.dirname(os.path.dirname(os.path.abspath(__file__)))
NOTE = ("Trusted base: CPython 3.12 + NumPy 2.5.3 as installed in /venv, the reference models in /verif/mc/oracle "
        "(pure Python/NumPy, no geometry_tools import), and the finite alphabets/bounds listed in the evidence file. "
        "The verdict covers exactly the enumerated space.")
CHECKS = {
 "C09": dict(engine="E+P", design="5/C09",
   technique="explicit-state BFS over operation histories of the real FSA object vs a set model (state de-duplication incl. list-aliasing pattern); exhaustive enumeration of kbmag tables",
   text="All operation histories up to the stated depth over a 3-vertex/2-label (thorough: also 3-label and 4-vertex) universe, from every construction route, are executed on real FSA objects; in every reached state the three views are compared with a set model. All kbmag tables with <=2 (thorough 3) states x spacing/interval styles are parsed and compared. Bounded-exhaustive: no history within the bound is skipped."),
 "C12": dict(engine="P", design="5/C12",
   technique="bounded-exhaustive enumeration of (entry point x value x packaging) and (geometric function x lattice input x per-unit rescaling pattern in {1,-1,2.5,-0.3}^units), metamorphic oracle between runs plus closed-form formulas",
   text="Every documented scalar/array entry point is called with every packaging of each table value (Python/NumPy scalars, 0-d arrays, lists, tuples, float32, integer packagings of integral values, Coxeter labels incl. infinite ones) and must give the same floating, usable result as the float64 packaging (and the closed-form value where one exists); README/docstring snippets are executed literally. Every listed geometric function is evaluated on every lattice input under every per-unit rescaling pattern and compared with the unscaled output. Complete over the stated tables; one NumPy version only."),
 "C20": dict(engine="P", design="5/C20",
   technique="bounded-exhaustive enumeration of CP^1 point / disk / Moebius-matrix / disk-pair lattices against a set-theoretic Riemann-sphere oracle (closed formulas cross-checked on a 41x41 probe lattice)",
   text="Every lattice point x input kind x homogeneous multiplier x composite packaging is round-tripped and compared with stereographic projection; every (centre, radius) of the affine and Fubini-Study tables is built and read back (incl. complement twice); all 480 Gaussian-integer matrices with entries in {0,+-1,+-i}, det != 0 are applied to every table disk and compared with the oracle image circle/side; contains/intersects are evaluated on all ordered pairs of a 12-disk general-position family x build routes (bounded, complemented, containing infinity) x elementwise/pairwise and compared with the set predicate."),
}
NA = {}
ALL = ["C%02d" % i for i in range(1, 21)]
checks = []
for pid in ALL:
    if pid not in CHECKS:
        continue
    c = CHECKS[pid]
    checks.append({
        "property_id": pid,
        "quick_cmd": "./check %s --tier quick" % pid,
        "thorough_cmd": "./check %s --tier thorough" % pid,
        "evidence_file": "/verif/evidence/%s.json" % pid,
        "replay_cmd_template": "./check %s --replay {path}" % pid,
        "engine": c["engine"],
        "level_claimed": {"category": "model_checking", "text": c["text"], "design_ref": "DESIGN.md section " + c["design"]},
        "level_note": c.get("note", NOTE),
        "technique": c["technique"],
    })
na = [{"property_id": p, "reason": NA.get(p, "check not built yet in this session (planned in DESIGN.md section 5; not a limit of the technique)")}
      for p in ALL if p not in CHECKS]
man = {
 "version": 1,
 "setup_cmd": "cd /verif && /venv/bin/python -m compileall -q mc checks tools >/dev/null && chmod +x check",
 "hooks": {"guard": "GEOMETRY_TOOLS_VERIF", "enable": "no source hooks are needed: checks observe public attributes only; ./check exports GEOMETRY_TOOLS_VERIF=1 (unused by the library)",
           "baseline_off_cmd": "cd /repo && /venv/bin/python -m pytest -ra -q -p no:cacheprovider --timeout=900 --continue-on-collection-errors",
           "source_commits": [], "add_only": True},
 "engines": [
   {"name": "E", "path": "mc/core.py (Ctx.bfs)", "serves_properties": [p for p in CHECKS if "E" in CHECKS[p]["engine"]],
    "kind_free_text": "hand-written explicit-state explorer: level-synchronous BFS over operation histories replayed on fresh real objects, reference model in lock-step, canonical-key de-duplication, 16 worker processes"},
   {"name": "P", "path": "mc/core.py (Ctx.product)", "serves_properties": [p for p in CHECKS if "P" in CHECKS[p]["engine"]],
    "kind_free_text": "bounded-exhaustive product-space enumerator (complete itertools products of declared finite domains, sharded over 16 processes)"}],
 "checks": checks,
 "not_applicable": na,
 "notes": "All checks: cd /verif && ./check Cxx --tier quick|thorough ; replay a violation with ./check Cxx --replay <file>. known_findings.json lists genuine defects (open / fixed).",
}
json.dump(man, open(os.path.join(HERE, "MANIFEST.json"), "w"), indent=1)
r = subprocess.run(["python3-vt", "-c", "import json,jsonschema;jsonschema.validate(json.load(open('%s/MANIFEST.json')),json.load(open('/root/.vp/MANIFEST.schema.json')));print('MANIFEST valid: %d checks, %d not_applicable')" % (HERE, len(checks), len(na))], capture_output=True, text=True)
print(r.stdout + r.stderr[-500:])
