#!/venv/bin/python
"""Regenerates MANIFEST.json from the table below (keeps it schema-valid at all times)."""
import json, os, subprocess
HERE = os.path.dirname(os.path.dirname(os.path.abspath(__file__)))
NOTE = ("Trusted base: CPython 3.12 + NumPy 2.5.3 as installed in /venv, the reference models in /verif/mc/oracle "
        "(pure Python/NumPy, no geometry_tools import), and the finite alphabets/bounds listed in the evidence file. "
        "The verdict covers exactly the enumerated space.")
CHECKS = {
 "C05": dict(engine="E+P", design="5/C05",
   technique="explicit-state BFS over generator-table histories (assign / re-assign / assign-inverse-first, mixed dtypes and multi-character names) with ALL words up to length L evaluated in every state against an exact product oracle; functorial oracle for every derived representation; Fox calculus by its defining recursion",
   text="All assignment histories to depth 2 (thorough 3) over a 6-matrix alphabet per dimension 1..3 (thorough 5); in every state all 341 (thorough 5461) words: rep[w] = oracle product (hence every split), empty word, inverses, free reduction, elements(); every derived representation (copy, conjugate, dual, compose with each lie.hom wrapper, tensor products, symmetric square, adjoints, subgroups, astype, projective/hyperbolic wrapping) equals the oracle functor of the oracle image; Fox fundamental formula for all words; cocycle @ coboundary = 0 for eight relation families."),
 "C17": dict(engine="P", design="5/C17",
   technique="complete product-grid enumeration deciding polynomial identities (degree <= d per variable vanishing on a (d+1)-point grid per variable => identically zero), exact in float64; exhaustive finite exact alphabets for the non-polynomial maps",
   text="sl2_irrep(.,n) homomorphism on the full grid {0..n-1}^8 for n=2..4 (thorough 6: 2.1M points), sl2_to_so21 on {0,1,2}^8 and its form law on {0..4}^4, slc_to_slr / block_include on their degree-1/2 grids: these DECIDE the identities for all real and complex matrices. Adjoint representations on all integer matrices with entries in [-2,2], det +-1, and elementary alphabets (homomorphism, Killing form); sl2c_to_so31 / Hermitian action on all 72 Gaussian det-1 matrices; every batch shape vs per-matrix calls; o_to_pgl recovery and homomorphism up to sign on all det +-1 integer matrices, also for four non-default bilinear forms."),
 "C06": dict(engine="E+P", design="5/C06",
   technique="bounded-exhaustive enumeration of all deterministic automata with <=3 states over <=2 labels (single- and multi-letter labels) x every option combination x length bound, path-enumeration oracle on a free-monoid representation (image <-> word decided both ways, exactly); BFS over memo-dictionary call histories",
   text="Every automaton of the classes x {default, start_state=s, end_state=s for all s} x maxlen x with_words x edge_words x L=0..3 (thorough 5; also automata built by add_edges): returned words = oracle multiset, matrices[i] is exactly the image of words[i] and decodes back to it, agreement with the automaton's own enumerators; all call sequences of length 2 (thorough 3) sharing one precomputed dict within a mode; freely reduced enumeration returns each freely reduced word exactly once; all 18 built-in automata."),
 "C07": dict(engine="P", design="5/C07",
   technique="bounded-exhaustive enumeration of Coxeter matrices (all 343 ordered rank-3 matrices, rank 2, rank 4 over {2,3,4,inf}; thorough rank 4 over {2,3,4,5,inf} and rank-5 paths/stars) x ALL words up to length L (breadth-first over oracle-reduced words and their one-letter extensions) against Tits' braid-move solution of the word problem, cross-checked by matrix enumeration and Steinberg's growth series",
   text="Per matrix/encoding/route/naming: geodesic automaton accepts w iff the oracle says w is reduced; shortlex accepts w iff reduced and minimal in its braid class; even variants iff additionally even length (via enumerate_words and chunked accepts); counts per length equal the growth series (finite groups decided completely: language exhausted, automaton acyclic); distinct shortlex words have distinct canonical-representation images."),
 "C08": dict(engine="P", design="5/C08",
   technique="bounded-exhaustive enumeration of Coxeter matrices (all 13^3 rank-3 matrices over labels 2..12,inf in both encodings, rank 2, rank 4 family, triangle triples) x constructor route x naming x representation kind against an independently built cosine form and relation oracle",
   text="Every representation (geometric, canonical, Cartan incl. non-symmetric, Tits-Vinberg, diagonalised, hyperbolic when the oracle signature is (d,1)) built fresh per case: generators are involutions, (st)^m = I (exact order for the canonical one), cosine form preserved and canonical = dual on all words of length <=3 (quick rank 4: 2), hyperbolic generators are reflections of O(d,1); for all hyperbolic triangle triples over {2..8,inf} in all orderings the fixed points of ab, bc, ca span a triangle with angles pi/p, pi/q, pi/r (ideal vertex for inf)."),
 "C10": dict(engine="E+P", design="5/C10",
   technique="bounded-exhaustive enumeration of all deterministic automata (k<=3 over <=2 labels; thorough also 3 labels / 4 states) x start vertex x ALL words up to length L against the set-model language oracle; BFS over query/operation histories (queries must not change what later operations return)",
   text="accepts / follow_word / initial_accepted_subword / both enumerators agree with the oracle walk, each accepted word listed once; automaton_multiple(1..4) and even_automaton accept exactly the accepted words of length divisible by k; every injective relabelling maps the language letterwise; recurrent() is the oracle's greatest fixpoint; remove_long_paths keeps exactly the shortest-path edges for every root; receivers unchanged by non-in-place calls; all 18 built-ins; histories of depth 3 (thorough 5) mixing queries and operations."),
 "C19": dict(engine="P", design="5/C19",
   technique="bounded-exhaustive enumeration of ordered vertex tuples of a Klein lattice x model x drawing transform, one fresh matplotlib figure per execution, drawn Path sampled by de Casteljau and compared with the closed-form geodesic / horocycle geometry",
   text="All ordered non-degenerate triples (and 4-tuples; thorough 5..8-tuples) of a 16-point (thorough 27) lattice incl. edges through the origin and above RADIUS_THRESHOLD: one closed continuous path visiting the vertices in order, every sampled point on the hyperbolic edge inside the model (straight chord above the threshold); geodesic Arcs have the oracle centre/radius/extent; points, Klein and projective polygons in every chart sit at the transformed model coordinates; horospheres (single and composite) and horoarcs match the horocycle; wrong-dimension objects are rejected."),
 "C09": dict(engine="E+P", design="5/C09",
   technique="explicit-state BFS over operation histories of the real FSA object vs a set model (state de-duplication incl. list-aliasing pattern); exhaustive enumeration of kbmag tables",
   text="All operation histories up to the stated depth over a 3-vertex/2-label (thorough: also 3-label and 4-vertex) universe, from every construction route, are executed on real FSA objects; in every reached state the three views are compared with a set model. All kbmag tables with <=2 (thorough 3) states x spacing/interval styles are parsed and compared. Bounded-exhaustive: no history within the bound is skipped."),
 "C01": dict(engine="E+P", design="5/C01",
   technique="explicit-state BFS on the graph of models (read coords in m', rebuild the point) against closed-form chart/metric oracles; exhaustive pairs/triples of a Klein lattice for the metric laws",
   text="States (dimension 1..4 (thorough 5), lattice point incl. ideal ones, model, homogeneous representative) are explored breadth-first through all 25 model-to-model transitions to depth 2 (thorough 3); in every state all five charts must equal the oracle chart. All ordered pairs x 81 (model, representative) combinations are checked against the five closed-form metrics, symmetry, d(x,x)=0 (not NaN), all triples for the triangle inequality, every composite shape of rank<=3 per unit."),
 "C02": dict(engine="E+P", design="5/C02",
   technique="Cayley-graph BFS over words of constructed isometries and inverses (state de-duplication on the rounded matrix), invariant = Minkowski form / distance / light-cone class preservation",
   text="Every isometry constructor named in the property is enumerated over its finite parameter alphabet (incl. all integer 2x2 matrices with entries in [-2,2], det +-1; all hyperbolic triangle triples over {2..7,inf}; lattice normals incl. symmetric ones) in dimensions 2..4 (thorough 5); products of <=2 (thorough 3) generators/inverses are explored breadth-first; in every state M J M^T = J, inv() = J M^T J, pairwise distances of lattice points and the timelike/lightlike/spacelike class of test vectors are preserved."),
 "C03": dict(engine="E+P", design="5/C03",
   technique="BFS over words of transformations applied to every object class/shape (exact integer and Gaussian-integer alphabets; isometry alphabet with projective row comparison), plus exhaustive words of representations against the column-vector oracle",
   text="For every (dimension, class, composite shape, field) root, words of <=2 (thorough 3) alphabet transformations are applied; in every state sequential image = oracle image = image under the product, identity and inv() laws (also for products whose factors already answered inv()), class/shape preserved, derived data recomputed by the oracle. All words of length <=4 (thorough 6) over {a,b,A,B} of projective and hyperbolic representations act on points as the oracle column-vector product; bulk accessors agree with rep[w] for every assignment order/dtype mix."),
 "C04": dict(engine="E+P", design="5/C04",
   technique="bounded-exhaustive enumeration of (class, object shape, transformation shape, broadcast mode, dimension) against the NumPy-broadcast / outer-product index-map oracle; BFS over shape histories with an 'ndarray of unit labels' model",
   text="Every ordered pair of composite shapes of rank<=2 plus three rank-3 shapes (thorough: all rank<=3) x 10 classes x 3 broadcast modes x n in {2,3}: result shape and every entry (primary and auxiliary data) equal the per-unit application with the property's axis order; every vectorised geometric routine equals the Python loop over units for every shape; reshape/flatten/index/iterate/stack histories to depth 2 (thorough 3) preserve units and order."),
 "C11": dict(engine="E", design="5/C11",
   technique="explicit-state BFS over object histories {copy, apply, apply-composite, apply-pairwise, reshape, flatten, index, setitem, stack, combine, astype, queries} on real objects vs expected primary data; invariant: derived data = oracle recomputation, retained objects and caller arrays unchanged",
   text="All histories up to depth 3 (thorough 4) on hyperbolic Polygon/Segment/TangentVector, segments with ideal endpoints and projective Polygon in composite shapes (), (2,), (2,2): in every state aux_data equals both type(obj)(proj_data).aux_data and an independent oracle recomputation; every object left behind and every array the caller handed in is projectively unchanged; every read-only query is executed one at a time with the same invariant."),
 "C13": dict(engine="P", design="5/C13",
   technique="bounded-exhaustive enumeration of lattice points/pairs/triples x representatives x signed distances x orientation flags, and of regular-polygon parameter tables, against closed-form hyperbolic oracles",
   text="All lattice points x 4 homogeneous representatives x force_oriented for origin_to; all ordered pairs for tangent-vector transport, point_along over six signed distances (distance, collinearity, side), unit_tangent_towards arriving at the target for all 16 representative pairs; all triples for the angle vs the law of cosines; regular polygons with 3..12 sides x 5 angles + 3 radii (and dimension 3; thorough 4, 5): equal radii, sides, interior angle, mutually inverse formulas."),
 "C14": dict(engine="P", design="5/C14",
   technique="bounded-exhaustive enumeration of ordered pairs of interior/ideal lattice points x model x unit x construction, horosphere (centre, reference) pairs and ideal-basis subsets, against Klein-chord / circle / horocircle oracles",
   text="Every ordered pair of distinct lattice points (n=2: angles; n=3,4: spheres) in both conformal models: ideal endpoints lightlike and Klein-collinear, circle through the endpoints orthogonal to the boundary, the counter-clockwise arc sampled at 9 parameters lies on the hyperbolic segment; straight-line limits report a non-finite/huge radius; composite segment arrays equal their units; all horospheres and horosphere arcs; all (k+1)-subsets of the ideal alphabet as subspace bases."),
 "C15": dict(engine="P", design="5/C15",
   technique="bounded-exhaustive enumeration of spacelike lattice normals x layouts, walls given by ideal bases, non-reflections, Coxeter reflections and conjugates of standard isometries (single and composite), against the closed-form reflection and an orbit-iteration oracle",
   text="All lattice normals of {-1,-0.4,0,0.5,1.2}^(n+1) with Minkowski norm > 0.2 (n=2,3; n=4 sub-lattice/thorough full) plus generic ones: reflection is the closed-form involution, fixes the wall, from_reflection returns the wall; non-reflections are rejected; conjugates of rotations/loxodromics/parabolics by origin_to of every lattice point: fixed points fixed, in the closed ball, attracting end first; arrays of isometries equal their units."),
 "C16": dict(engine="P", design="5/C16",
   technique="bounded-exhaustive enumeration of dyadic (Gaussian-)rational coordinate products x dimension x chart x layout x rescaling, complete small alphabets of linear maps/translations/normals, all transverse subspace pairs (exact rank), integer-conjugated diagonal matrices",
   text="Dimension 1..5, every chart, row/column layout, real and complex fields: chart slot exactly 1, exact round trip under rescaling, outside-chart reported iff the chart coordinate is exactly zero (incl. purely imaginary and tiny non-zero values); affine_linear_map / affine_translation / hyperplane_coordinate_transform act in the chart as the oracle for every alphabet element; Subspace.intersect lies in both with the right dimension for every transverse pair, elementwise and pairwise; eigenvector/diagonalize on exact eigen-data."),
 "C18": dict(engine="P", design="5/C18",
   technique="bounded-exhaustive enumeration of signatures x unimodular conjugates x ordered row subsets with non-zero leading Gram minors (exact integer arithmetic), all small integer matrices for kernel, integer point tuples for spheres, full angle-pair grids for the arc helpers",
   text="All forms of signature (p,q), p+q<=4 (thorough 6), diagonal and unimodularly conjugated; every admissible ordered row subset: orthogonalize / find_isometry / find_definite_isometry / orthogonal_complement contracts incl. inputs whose kernel completion meets null vectors; diagonalize_form in every ordering with inverse; kernel of every integer matrix of the small shapes with exact rank; sphere_through vs exact circumcentres; short_arc / right_to_left / arc_include on all pairs (triples) of a 29-angle grid at batch rank 0..2."),
 "C12": dict(engine="P", design="5/C12",
   technique="bounded-exhaustive enumeration of (entry point x value x packaging) and (geometric function x lattice input x per-unit rescaling pattern in {1,-1,2.5,-0.3}^units), metamorphic oracle between runs plus closed-form formulas",
   text="Every documented scalar/array entry point is called with every packaging of each table value (Python/NumPy scalars, 0-d arrays, lists, tuples, float32, integer packagings of integral values, Coxeter labels incl. infinite ones) and must give the same floating, usable result as the float64 packaging (and the closed-form value where one exists); README/docstring snippets are executed literally. Every listed geometric function is evaluated on every lattice input under every per-unit rescaling pattern and compared with the unscaled output. Complete over the stated tables; one NumPy version only."),
 "C20": dict(engine="P", design="5/C20",
   technique="bounded-exhaustive enumeration of CP^1 point / disk / Moebius-matrix / disk-pair lattices against a set-theoretic Riemann-sphere oracle (closed formulas cross-checked on a 41x41 probe lattice)",
   text="Every lattice point x input kind x homogeneous multiplier x composite packaging is round-tripped and compared with stereographic projection; every (centre, radius) of the affine and Fubini-Study tables is built and read back (incl. complement twice); all 480 Gaussian-integer matrices with entries in {0,+-1,+-i}, det != 0 are applied to every table disk and compared with the oracle image circle/side; contains/intersects are evaluated on all ordered pairs of a 12-disk general-position family x build routes (bounded, complemented, containing infinity) x elementwise/pairwise and compared with the set predicate."),
}
NA = {}
ALL = ["C%02d" % i for i in range(1, 21)]
checks = []
for pid in ALL:
    if pid not in CHECKS:
        continue
    c = CHECKS[pid]
    checks.append({
        "property_id": pid,
        "quick_cmd": "./check %s --tier quick" % pid,
        "thorough_cmd": "./check %s --tier thorough" % pid,
        "evidence_file": "/verif/evidence/%s.json" % pid,
        "replay_cmd_template": "./check %s --replay {path}" % pid,
        "engine": c["engine"],
        "level_claimed": {"category": "model_checking", "text": c["text"], "design_ref": "DESIGN.md section " + c["design"]},
        "level_note": c.get("note", NOTE),
        "technique": c["technique"],
    })
na = [{"property_id": p, "reason": NA.get(p, "check not built yet in this session (planned in DESIGN.md section 5; not a limit of the technique)")}
      for p in ALL if p not in CHECKS]
man = {
 "version": 1,
 "setup_cmd": "cd /verif && /venv/bin/python -m compileall -q mc checks tools >/dev/null && chmod +x check",
 "hooks": {"guard": "GEOMETRY_TOOLS_VERIF", "enable": "no source hooks are needed: checks observe public attributes only; ./check exports GEOMETRY_TOOLS_VERIF=1 (unused by the library)",
           "baseline_off_cmd": "cd /repo && /venv/bin/python -m pytest -ra -q -p no:cacheprovider --timeout=900 --continue-on-collection-errors",
           "source_commits": [], "add_only": True},
 "engines": [
   {"name": "E", "path": "mc/core.py (Ctx.bfs)", "serves_properties": [p for p in CHECKS if "E" in CHECKS[p]["engine"]],
    "kind_free_text": "hand-written explicit-state explorer: level-synchronous BFS over operation histories replayed on fresh real objects, reference model in lock-step, canonical-key de-duplication, 16 worker processes"},
   {"name": "P", "path": "mc/core.py (Ctx.product)", "serves_properties": [p for p in CHECKS if "P" in CHECKS[p]["engine"]],
    "kind_free_text": "bounded-exhaustive product-space enumerator (complete itertools products of declared finite domains, sharded over 16 processes)"}],
 "checks": checks,
 "not_applicable": na,
 "notes": "All checks: cd /verif && ./check Cxx --tier quick|thorough ; replay a violation with ./check Cxx --replay <file>. known_findings.json lists genuine defects (open / fixed).",
}
json.dump(man, open(os.path.join(HERE, "MANIFEST.json"), "w"), indent=1)
r = subprocess.run(["python3-vt", "-c", "import json,jsonschema;jsonschema.validate(json.load(open('%s/MANIFEST.json')),json.load(open('/root/.vp/MANIFEST.schema.json')));print('MANIFEST valid: %d checks, %d not_applicable')" % (HERE, len(checks), len(na))], capture_output=True, text=True)
print(r.stdout + r.stderr[-500:])
