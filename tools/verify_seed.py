#!/venv/bin/python
"""usage: verify_seed.py <seed_dir> [--tier quick|thorough] [--checks C09,C10] [--keep]

<seed_dir> holds patch.diff, demo.py, meta.json (property id).  Confirms, on a scratch copy of
/repo's working tree (never /repo itself):
  1. demo.py exits 0 on the clean copy,
  2. patch applies, library imports, demo.py exits non-zero with it,
  3. the pinned baseline stays 79/79 with it,
  4. the property's check (run with VERIF_REPO=<copy>) exits 1 with a VIOLATION line.
Prints a JSON summary and, with --record, writes it to <seed_dir>/verify.json.
Removes the scratch copy.
"""
import argparse
import json
import os
import shutil
import subprocess
import sys
import tempfile
import time


def sh(cmd, **kw):
    return subprocess.run(cmd, shell=True, capture_output=True, text=True, **kw)


def main():
    ap = argparse.ArgumentParser()
    ap.add_argument("seed_dir")
    ap.add_argument("--tier", default="quick")
    ap.add_argument("--checks")
    ap.add_argument("--record", action="store_true")
    ap.add_argument("--skip-baseline", action="store_true")
    a = ap.parse_args()
    d = os.path.abspath(a.seed_dir)
    meta = json.load(open(os.path.join(d, "meta.json")))
    prop = meta["property"]
    checks = a.checks.split(",") if a.checks else [prop]
    S = tempfile.mkdtemp(prefix="seedv.", dir="/tmp")
    res = {"seed": os.path.basename(d), "property": prop, "tier": a.tier}
    try:
        sh("rsync -a --exclude .git --exclude __pycache__ --exclude '*.egg-info' /repo/ %s/" % S)
        env = dict(os.environ, PYTHONPATH=S, MPLBACKEND="Agg", PYTHONDONTWRITEBYTECODE="1")
        demo = os.path.join(d, "demo.py")
        r = subprocess.run(["/venv/bin/python", demo], env=env, cwd=S, capture_output=True, text=True, timeout=900)
        res["demo_clean_exit"] = r.returncode
        p = sh("cd %s && patch -p1 -s < %s" % (S, os.path.join(d, "patch.diff")))
        res["patch_applies"] = p.returncode == 0
        if p.returncode != 0:
            res["patch_err"] = (p.stdout + p.stderr)[-400:]
            print(json.dumps(res, indent=1))
            return 2
        r = subprocess.run(["/venv/bin/python", demo], env=env, cwd=S, capture_output=True, text=True, timeout=900)
        res["demo_patched_exit"] = r.returncode
        res["demo_patched_tail"] = (r.stdout + r.stderr)[-300:]
        if not a.skip_baseline:
            b = sh("/verif/tools/baseline.py %s" % S)
            res["baseline"] = b.stdout.strip().splitlines()[0] if b.stdout.strip() else b.stderr[-200:]
            res["baseline_ok"] = b.returncode == 0
        res["checks"] = {}
        for c in checks:
            t0 = time.time()
            e2 = dict(os.environ, VERIF_REPO=S, VERIF_EVIDENCE_DIR=os.path.join(S, "evidence"))
            r = subprocess.run(["/verif/check", c, "--tier", a.tier], env=e2, cwd="/verif", capture_output=True, text=True)
            keys = [l.strip() for l in r.stdout.splitlines() if " key=" in l][:3]
            res["checks"][c] = {"exit": r.returncode, "violation_lines": sum(1 for l in r.stdout.splitlines() if l.startswith("VIOLATION")),
                                "first_keys": keys, "wall_s": round(time.time() - t0, 1)}
            if r.returncode >= 2:
                res["checks"][c]["tail"] = (r.stdout + r.stderr)[-500:]
        res["valid_seed"] = (res["demo_clean_exit"] == 0 and res["demo_patched_exit"] != 0 and res.get("baseline_ok", True))
        res["caught"] = any(v["exit"] == 1 and v["violation_lines"] >= 1 for v in res["checks"].values())
    finally:
        shutil.rmtree(S, ignore_errors=True)
    print(json.dumps(res, indent=1))
    if a.record:
        json.dump(res, open(os.path.join(d, "verify.json"), "w"), indent=1)
    return 0 if res.get("valid_seed") and res.get("caught") else 1


if __name__ == "__main__":
    sys.exit(main())
