#!/bin/bash
# usage: tools/keep_seed.sh <seed_dir> [verify_seed.py options]   -> verifies and copies to /verif/seeded/<name>/
d=$(realpath "$1"); shift
name=$(basename "$d")
/verif/tools/verify_seed.py "$d" --record "$@" > /tmp/keep_seed.$$.json; rc=$?
/venv/bin/python - "$d" /tmp/keep_seed.$$.json <<'PY'
import json,sys
r=json.load(open(sys.argv[2]))
print(r['seed'],'valid_seed=',r.get('valid_seed'),'caught=',r.get('caught'),{k:(v['exit'],v['first_keys'][:1]) for k,v in r.get('checks',{}).items()})
PY
if /venv/bin/python -c "import json,sys; r=json.load(open('/tmp/keep_seed.$$.json')); sys.exit(0 if r.get('valid_seed') else 1)"; then
  mkdir -p /verif/seeded/$name; cp "$d"/patch.diff "$d"/demo.py "$d"/meta.json "$d"/verify.json /verif/seeded/$name/
fi
rm -f /tmp/keep_seed.$$.json; exit $rc
