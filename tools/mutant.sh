#!/bin/bash
# usage: tools/mutant.sh <patch-file> [--no-baseline] [--tier quick|thorough] Cxx [Cyy ...]
# Applies a patch to a scratch copy of /repo's working tree (never to /repo itself), runs the pinned
# baseline on the copy and the given checks against it (VERIF_REPO), prints one summary line per
# step, and deletes the copy.  Exit 0 iff baseline green AND at least one listed check exits 1.
set -u
PATCH=$(realpath "$1"); shift
BASE=1; TIER=quick
while [[ "${1:-}" == --* ]]; do
  case "$1" in --no-baseline) BASE=0; shift;; --tier) TIER=$2; shift 2;; *) echo "bad flag $1"; exit 2;; esac
done
S=$(mktemp -d /tmp/mut.XXXXXX)
trap 'rm -rf "$S"' EXIT
rsync -a --exclude .git --exclude '__pycache__' --exclude '*.egg-info' /repo/ "$S/"
if ! (cd "$S" && patch -p1 -s < "$PATCH"); then echo "MUTANT: patch does not apply"; exit 2; fi
if ! (cd "$S" && PYTHONPATH="$S" /venv/bin/python -c "import geometry_tools, geometry_tools.hyperbolic, geometry_tools.coxeter, geometry_tools.complex_projective, geometry_tools.drawtools; assert geometry_tools.__file__.startswith('$S')"); then echo "MUTANT: does not import"; exit 2; fi
bl=0
if [ $BASE = 1 ]; then
  /verif/tools/baseline.py "$S" | sed 's/^/MUTANT baseline: /'; bl=${PIPESTATUS[0]}
fi
caught=0
for c in "$@"; do
  out=$(cd /verif && VERIF_REPO="$S" VERIF_EVIDENCE_DIR="$S/evidence" ./check "$c" --tier "$TIER" 2>&1); rc=$?
  echo "MUTANT check $c: exit=$rc  $(echo "$out" | grep -c '^VIOLATION') VIOLATION lines; $(echo "$out" | grep 'key=' | head -2 | tr '\n' ' ' | cut -c1-300)"
  [ $rc = 1 ] && caught=1
  [ $rc -ge 2 ] && echo "$out" | tail -5
done
[ $bl = 0 ] && [ $caught = 1 ] && { echo "MUTANT RESULT: baseline green, caught"; exit 0; }
echo "MUTANT RESULT: baseline_rc=$bl caught=$caught"; exit 1
