#!/usr/bin/env python3
"""usage: gen_seed_prompts.py <wave-tag> <prefix> <note-file>

Writes /tmp/seed/<prefix>1.txt .. <prefix>7.txt: the prompts for one wave of seeding sub-agents.  A prompt
holds ONLY the task description (tools/SEED_PROMPT.tmpl), the text of three properties (/tmp/seed/Cxx.txt,
extracted from properties.jsonl) and, per property, one line for every seed that already exists (name and
the clause it breaks - so the new ones differ), plus the wave's emphasis note.  Nothing about the checks.
"""
import glob
import json
import os
import sys

GROUPS = [["C01", "C04", "C07"], ["C02", "C05", "C10"], ["C03", "C06", "C14"], ["C08", "C11", "C17"],
          ["C09", "C12", "C18"], ["C13", "C15", "C20"], ["C16", "C19"]]


def prop_text(pid):
    p = "/tmp/seed/%s.txt" % pid
    if os.path.exists(p):
        return open(p).read()
    for line in open("/verif/properties.jsonl"):
        d = json.loads(line)
        if d["id"] == pid:
            a = d.get("anchors") or d.get("code_anchors") or {}
            return ("PROPERTY %s: %s\n\nSTATEMENT: %s\n\nQUANTIFIED OVER: %s\n\nWHY THE EXISTING TESTS CANNOT SETTLE IT: %s\n\nCODE ANCHORS: %s\n"
                    % (pid, d.get("title", ""), d.get("statement", ""), d.get("quantified_over", ""),
                       d.get("why_tests_insufficient", ""), json.dumps(a)))
    raise SystemExit("no property " + pid)


def existing(pid):
    out = []
    for d in sorted(glob.glob("/verif/seeded/%s-*" % pid)):
        try:
            m = json.load(open(d + "/meta.json"))
        except Exception:
            continue
        out.append("  - %s: %s" % (os.path.basename(d)[len(pid) + 1:], str(m.get("breaks", ""))[:80]))
    return "\n".join(out)


def main():
    tag, prefix, notefile = sys.argv[1:4]
    tmpl = open("/verif/tools/SEED_PROMPT.tmpl").read()
    note = open(notefile).read().replace("__TAG__", tag)
    for i, g in enumerate(GROUPS, 1):
        props = ""
        for pid in g:
            props += prop_text(pid).rstrip() + "\n\nSeeded defects that ALREADY exist for this property (yours must differ in mechanism AND code location):\n"
            props += existing(pid) + "\n\n----------------------------------------\n\n"
        s = tmpl.replace("__WT__", "/tmp/seed/w%d" % i).replace("__K__", os.environ.get("SEED_K", "2")).replace("__PROPS__", props + "\n\n" + note)
        open("/tmp/seed/%s%d.txt" % (prefix, i), "w").write(s)
        print("/tmp/seed/%s%d.txt" % (prefix, i), g, len(s))


if __name__ == "__main__":
    main()
