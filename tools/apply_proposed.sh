#!/bin/bash
# usage: apply_proposed.sh <name>   (expects /tmp/proposed/<name>.diff and .msg)
# Applies the diff to /repo, runs the pinned baseline, commits with the message's commit part, appends the
# "fixed:" line of the .msg to known_findings.json (with the commit hash inserted).  Never run by a check.
set -e
n=$1
d=/tmp/proposed/$n.diff; m=/tmp/proposed/$n.msg
[ -f "$d" ] && [ -f "$m" ] || { echo "missing $d or $m"; exit 2; }
cd /repo
git diff --quiet || { echo "/repo has uncommitted changes"; exit 2; }
patch -p1 -s --no-backup-if-mismatch < "$d"
find . -name '*.orig' -not -path './.git/*' -delete; find . -name '*.rej' -not -path './.git/*' | grep . && { echo REJECTS; git checkout -- .; exit 2; }
b=$(/verif/tools/baseline.py /repo | head -1); echo "$b"
echo "$b" | grep -q "79/79" || { echo "BASELINE BROKEN"; git checkout -- .; exit 2; }
python3 - "$m" > /tmp/proposed/.commitmsg <<'PY'
import sys
out=[]
for l in open(sys.argv[1]).read().splitlines():
    if l.startswith('fixed:') or l.lower().startswith('known_findings'):
        break
    out.append(l)
print("\n".join(out).rstrip())
PY
head -1 /tmp/proposed/.commitmsg | grep -q '^fix: ' || { echo "message does not start with fix:"; git checkout -- .; exit 2; }
git add -A; git commit -q -F /tmp/proposed/.commitmsg
h=$(git rev-parse --short HEAD); echo "committed $h: $(head -1 /tmp/proposed/.commitmsg)"
python3 - "$m" "$h" <<'PY'
import json,sys
m,h=sys.argv[1],sys.argv[2]
p='/verif/known_findings.json'; d=json.load(open(p))
for line in open(m).read().splitlines():
    if not line.startswith('fixed:'):
        continue
    parts=line.split(' ',2)   # fixed: property=Cxx rest
    line="%s %s %s %s"%(parts[0],parts[1],h,parts[2]) if len(parts)==3 else line
    d['fixed'].append(line); print("recorded:",line[:140])
json.dump(d,open(p,'w'),indent=1)
PY
