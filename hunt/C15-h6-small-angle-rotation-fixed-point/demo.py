"""Isometry.fixed_point() of a conjugated rotation of H^3 / H^4 by a small angle
(theta < 1e-4) sometimes returns a SPACELIKE vector in the rotating plane: a point
outside the closed ball, which is not a fixed point of the rotation.

g = C^-1 R(theta) C, with R(theta) the standard rotation in the (x1, x2)-plane and C a
random isometry (rotation times a boost of length 1).  The fixed set of g in H^n is the
C-image of the subspace {x1 = x2 = 0}; pulling the reported point back by C, its x1, x2
components must vanish and it must be timelike.
"""
import sys
import numpy as np
from geometry_tools import hyperbolic as hy


def J(n):
    j = np.eye(n)
    j[0, 0] = -1
    return j


def boost(dim, direction, t):
    n = dim + 1
    v = np.concatenate([[0], direction])
    e0 = np.zeros(n)
    e0[0] = 1
    return (np.eye(n)
            + (np.cosh(t) - 1) * (np.outer(e0, e0) + np.outer(v, v))
            + np.sinh(t) * (np.outer(e0, v) + np.outer(v, e0)))


def random_isometry(rng, dim, t):
    n = dim + 1
    q, _ = np.linalg.qr(rng.normal(size=(dim, dim)))
    rot = np.eye(n)
    rot[1:, 1:] = q
    d = rng.normal(size=dim)
    d /= np.linalg.norm(d)
    return rot @ boost(dim, d, t)


failures = []
trials = 200

for dim in (2, 3, 4):
    j = J(dim + 1)
    for theta in (1e-6, 1e-5, 5e-5, 9e-5, 1e-3, 0.5):
        rng = np.random.default_rng(12345)
        bad = 0
        example = None
        for _ in range(trials):
            C = random_isometry(rng, dim, 1.0)
            C_inv = j @ C.T @ j
            R = hy.Isometry.standard_rotation(theta, dimension=dim).proj_data
            g = hy.Isometry(C_inv @ R @ C)          # acts on row vectors

            x = g.fixed_point().proj_data
            pulled_back = x @ C_inv
            pulled_back = pulled_back / np.abs(pulled_back).max()

            in_fixed_set = np.abs(pulled_back[1:3]).max() < 1e-6
            interior = (x @ j @ x) / (x @ x) < -1e-9

            if not (in_fixed_set and interior):
                bad += 1
                if example is None:
                    example = (pulled_back, (x @ j @ x) / (x @ x))
        if bad:
            failures.append(
                f"H^{dim}, theta={theta}: {bad}/{trials} conjugates get a point that is "
                f"not an interior fixed point; e.g. pulled back to the standard frame "
                f"{np.round(example[0], 4)}, <x,x>/|x|^2 = {example[1]:+.3f} "
                f"(expected x1 = x2 = 0 and <x,x> < 0)")

if failures:
    print("FAIL")
    for f in failures:
        print(" -", f)
    sys.exit(1)

print("OK: rotations by small angles have interior fixed points")
sys.exit(0)
