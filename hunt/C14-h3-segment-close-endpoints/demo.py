"""The ideal endpoints of a short Segment are computed from
sqrt(a12^2 - a11*a22), which cancels catastrophically when the two endpoints
are close: for endpoints 1e-6 apart (float64, nowhere near the boundary) the
ideal endpoints are off by ~5e-5, the Poincare circle that
Segment.circle_parameters reports misses the segment's own endpoints by ~2e-4
and its centre is off by ~1e-2.  The data determines all of these to ~1e-10
(the conditioning of the problem is eps/d, the library loses eps/d^2)."""
import sys
import numpy as np
from geometry_tools import hyperbolic as H

p = np.array([0.3, 0.4])                    # Klein coordinates
u = np.array([np.cos(1.0), np.sin(1.0)])    # direction of the segment

# closed form: the line p + t u meets the unit circle at
b, c = p @ u, p @ p - 1
exact_ideal = np.array([p + (-b + np.sqrt(b * b - c)) * u,
                        p + (-b - np.sqrt(b * b - c)) * u])
# reference circle: the library's own answer for the complete geodesic
# through these two ideal points (a well conditioned computation)
ref_centre, ref_radius = H.Geodesic(
    H.Point(exact_ideal, model="klein")).sphere_parameters("poincare")

fail = False
for d in (1e-4, 1e-5, 1e-6, 1e-7):
    q = p + d * u
    seg = H.Segment(H.Point(np.array([p, q]), model="klein"))
    ideal = seg.ideal_endpoint_coords("klein")
    ideal_err = min(np.abs(ideal - exact_ideal).max(),
                    np.abs(ideal - exact_ideal[::-1]).max())
    centre, radius, _ = seg.circle_parameters(model="poincare")
    ends = seg.endpoint_coords("poincare")
    off_circle = np.abs(np.linalg.norm(ends - centre, axis=-1) - radius).max()
    centre_err = np.abs(centre - ref_centre).max()
    # generous budget: 1000 * eps / d  (the attainable accuracy is ~ eps / d)
    budget = 1000 * 2.2e-16 / d
    ok = ideal_err < budget and off_circle < budget
    fail |= not ok
    print(f"d={d:g}: ideal endpoint error {ideal_err:.2e}, endpoints off the "
          f"reported circle by {off_circle:.2e}, centre error {centre_err:.2e} "
          f"(budget {budget:.1e}) {'ok' if ok else 'BAD'}")

if fail:
    print("FAIL: circle/ideal endpoints of short segments are far less accurate "
          "than the data allows")
    sys.exit(1)
print("ok")
