"""Point.distance must be a metric on interior points: d(x, x) = 0 and
d(x, z) <= d(x, y) + d(y, z); and it must agree with the Klein model's closed-form
metric.

Oracle: the Klein metric cosh d = (1 - x.y) / sqrt((1-|x|^2)(1-|y|^2)) rewritten without
cancellation as sinh^2 d = N / D, N = |x-y|^2 - (|x|^2 |y|^2 - (x.y)^2),
D = (1-|x|^2)(1-|y|^2), with N and D computed in exact rational arithmetic (fractions)
from the float inputs."""
import sys
from fractions import Fraction as F
import math
import numpy as np
from geometry_tools import hyperbolic

def exact_dist(x, y):
    x = [F(float(t)) for t in x]; y = [F(float(t)) for t in y]
    dot = lambda a, b: sum(s * t for s, t in zip(a, b))
    diff = [s - t for s, t in zip(x, y)]
    n = dot(diff, diff) - (dot(x, x) * dot(y, y) - dot(x, y) ** 2)
    d = (1 - dot(x, x)) * (1 - dot(y, y))
    return math.asinh(math.sqrt(n / d))         # n / d = sinh^2(dist), exactly

bad = False
# 1. d(x, x) for an ordinary point
x = hyperbolic.Point([0.3, 0.4], model="klein")
dxx = float(x.distance(hyperbolic.Point([0.3, 0.4], model="klein")))
print("d(x, x) =", dxx)
if dxx != 0:
    print("  WRONG: expected exactly 0 (the two points have identical coordinates)"); bad = True

# 2. three nearby points on a line through (0.5, 0): triangle inequality and accuracy
pts = np.array([[0.500000024, 0.0], [0.500000041, 0.0], [0.500000058, 0.0]])
X, Y, Z = (hyperbolic.Point(p, model="klein") for p in pts)
dxy, dyz, dxz = float(X.distance(Y)), float(Y.distance(Z)), float(X.distance(Z))
exy, eyz, exz = exact_dist(pts[0], pts[1]), exact_dist(pts[1], pts[2]), exact_dist(pts[0], pts[2])
print("library: d(x,y)=%.4g d(y,z)=%.4g d(x,z)=%.4g" % (dxy, dyz, dxz))
print("exact  : d(x,y)=%.4g d(y,z)=%.4g d(x,z)=%.4g" % (exy, eyz, exz))
if dxz > dxy + dyz + 1e-12:
    print("  WRONG: triangle inequality violated by %.3g" % (dxz - dxy - dyz)); bad = True
for got, exp, name in [(dxy, exy, "d(x,y)"), (dyz, eyz, "d(y,z)"), (dxz, exz, "d(x,z)")]:
    if abs(got - exp) > 1e-3 * exp:
        print("  WRONG: %s = %.6g but the Klein closed form gives %.6g (relative error %.0f%%)"
              % (name, got, exp, 100 * abs(got - exp) / exp)); bad = True
sys.exit(1 if bad else 0)
