"""A representation must own its generator matrices.  rep[g] = M keeps a reference to
the caller's array (and Representation(rep) shares the arrays with rep), while the
inverse letter is computed once: after the caller reuses / updates the array in place
the representation silently stops being a homomorphism (rep['aA'] != identity)."""
import sys
import numpy as np
from geometry_tools.representation import Representation

bad = 0

# 1. caller reuses its work array after the assignment
M = np.array([[2.0, 1.0], [1.0, 1.0]])
rep = Representation()
rep["a"] = M
before = rep["a"].copy()
M *= 2                      # caller goes on working with its own array
if not np.array_equal(rep["a"], before):
    bad += 1
    print("rep['a'] changed from", before.tolist(), "to", rep["a"].tolist(),
          "when the caller modified its own array")
if not np.allclose(rep["aA"], np.eye(2)):
    bad += 1
    print("rep['aA'] =", rep["aA"].tolist(), "expected the identity (rep[''] =", rep[""].tolist(), ")")

# 2. two representations built from the same array, one array update hits both
M = np.array([[2.0, 1.0], [1.0, 1.0]])
r1 = Representation(); r1["a"] = M
r2 = Representation(r1)                 # documented: "Representation to copy elements from"
r2.generators["a"][0, 0] = 50.0         # edit the copy's matrix
if r1["a"][0, 0] != 2.0:
    bad += 1
    print("editing the copy's generator changed the original: r1['a'] =", r1["a"].tolist())
sys.exit(1 if bad else 0)
