"""Subspace.boundary_sphere_parameters is documented to return the (k-1)-sphere in
R^(n-1) (ideal boundary in the half-space model) bounding a k-dimensional
subspace of H^n, for any k.  It only works for hyperplanes (k = n-1): for a
geodesic in H^3 or H^4, or a plane in H^4, it raises GeometryError."""
import sys
import numpy as np
from geometry_tools import hyperbolic as H

rng = np.random.default_rng(0)
fail = False
for n, k in [(3, 1), (4, 1), (4, 2), (2, 1), (3, 2), (4, 3)]:
    # k+1 ideal points spanning a k-dimensional subspace of H^n
    v = rng.normal(size=(k + 1, n))
    v /= np.linalg.norm(v, axis=-1, keepdims=True)
    sub = H.Subspace(H.Point(v, model="klein").proj_data)
    boundary_pts = H.Point(v, model="klein").coords("halfspace")[..., :-1]
    try:
        centre, radius = sub.boundary_sphere_parameters()
        dist = np.linalg.norm(boundary_pts - centre, axis=-1)
        # centre must be equidistant from the ideal points and lie in their
        # affine span
        diffs = boundary_pts[1:] - boundary_pts[0]
        resid = (centre - boundary_pts[0]) - np.linalg.lstsq(
            diffs.T, centre - boundary_pts[0], rcond=None)[0] @ diffs
        ok = np.allclose(dist, radius) and np.allclose(resid, 0, atol=1e-9)
        print(f"H^{n}, {k}-dimensional subspace: centre {centre}, radius {radius}: "
              f"{'ok' if ok else 'WRONG'}")
    except Exception as e:
        ok = False
        print(f"H^{n}, {k}-dimensional subspace: raised {e!r}")
    fail |= not ok
if fail:
    print("FAIL")
    sys.exit(1)
print("ok")
