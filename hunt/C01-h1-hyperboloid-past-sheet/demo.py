"""Hyperboloid-model coordinates of a point of H^n are unique: the representative with
<x,x> = -1 on the FUTURE sheet (x0 > 0), and the model's closed-form metric is
d(x, y) = arccosh(-<x, y>).  They must not depend on which homogeneous representative
(v or -v) the point was built from.

Oracle: Klein closed-form metric on the (sign independent) Klein coordinates."""
import sys
import numpy as np
from geometry_tools import hyperbolic

def mink(x, y):
    return -x[..., 0] * y[..., 0] + (x[..., 1:] * y[..., 1:]).sum(-1)

def klein_dist(x, y):
    return np.arccosh((1 - x @ y) / np.sqrt((1 - x @ x) * (1 - y @ y)))

v = np.array([2.0, 0.4, -0.6])
w = np.array([1.0, -0.5, 0.3])
p_plus, p_minus = hyperbolic.Point(v.copy()), hyperbolic.Point(-v)      # the same point of H^2
q = hyperbolic.Point(w.copy())

bad = False
assert np.allclose(p_plus.coords("klein"), p_minus.coords("klein"))
h_plus = np.array(p_plus.coords("hyperboloid"))
h_minus = np.array(p_minus.coords("hyperboloid"))
h_q = np.array(q.coords("hyperboloid"))
print("hyperboloid coords from  v:", h_plus)
print("hyperboloid coords from -v:", h_minus)
if not np.allclose(h_plus, h_minus) or h_minus[0] <= 0:
    bad = True
    print("WRONG: the same point has two different hyperboloid coordinates (x0 = %.4f < 0 is "
          "not on the hyperboloid model's sheet)" % h_minus[0])

ref = klein_dist(p_minus.coords("klein"), q.coords("klein"))
with np.errstate(invalid="ignore"):
    closed_form = np.arccosh(-mink(h_minus, h_q))
lib = p_minus.distance(q)
print("library distance %.6f, Klein closed form %.6f, hyperboloid closed form arccosh(-<x,y>) = %s"
      % (lib, ref, closed_form))
if not np.isfinite(closed_form) or abs(closed_form - lib) > 1e-7:
    bad = True
    print("WRONG: the hyperboloid model's own metric on the reported coordinates is not the reported distance")

# composite with mixed signs
pts = hyperbolic.Point(np.array([v, -v, w, -w]))
h = np.array(pts.coords("hyperboloid"))
if (h[:, 0] <= 0).any():
    bad = True
    print("WRONG: composite hyperboloid coordinates have x0 =", h[:, 0])
sys.exit(1 if bad else 0)
