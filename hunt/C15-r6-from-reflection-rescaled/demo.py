"""Hyperplane.from_reflection / Geodesic.from_reflection reject a reflection
whose matrix is multiplied by a nonzero scalar (c*R is the same isometry)."""
import sys
import numpy as np
from geometry_tools import hyperbolic as hy

bad = 0
for dim in (2, 3, 4):
    J = np.diag([-1.] + [1.] * dim)
    n = np.array([0.3, 1.0, -0.5, 0.7, 0.2][:dim + 1])
    R = hy.Hyperplane(n.copy()).reflection_across()
    nn = n / np.sqrt(n @ J @ n)
    for c in (1.0, -1.0, 2.0, -0.5):
        iso = hy.Isometry(c * R.proj_data)
        # same isometry: same action on a point of H^n
        p = hy.Point(np.full(dim, 0.2), model="klein")
        assert (iso @ p).distance(R @ p) < 1e-9
        try:
            got = hy.Hyperplane.from_reflection(iso).spacelike_vector
            cos = abs(got @ J @ nn) / np.sqrt(got @ J @ got)
            ok = abs(cos - 1) < 1e-8
            if dim == 2:
                e = hy.Geodesic.from_reflection(iso).endpoints
                ok = ok and np.abs(e @ J @ nn).max() < 1e-8 * np.abs(e).max()
        except hy.GeometryError as err:
            ok = False
            print("dim %d, matrix %+.1f * R: rejected (%s)" % (dim, c, err))
        if not ok:
            bad += 1
print("violations:", bad)
sys.exit(1 if bad else 0)
