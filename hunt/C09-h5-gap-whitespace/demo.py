"""The GAP record parser only treats ' ', '\\n', '\\t' as white space and
only recognises the interval syntax without blanks.  A kbmag record with
Windows line ends inside the transition table silently loads a WRONG
table (a phantom state named '\\r'); '[ 1 .. 2 ]' raises; a GAP comment
makes the loader return None."""
import sys
import os, tempfile
from geometry_tools.automata import fsa, gap_parse, kbmag_utils

TXT = ('_RWS.wa := rec( isFSA := true, alphabet := rec(type:="identifiers",size:=2,'
       'format:="dense",names:=[a,b]), states:=rec(type:="simple",size:=2), flags:=["DFA"],'
       ' initial:=[1], accepting:=[1..2], table:=rec(format:="dense deterministic",'
       ' numTransitions:=2, transitions:=[[2,0],[0,1]]));')
expected = {1: {'a': 2}, 2: {'b': 1}}

def load(text):
    # public route 1: the text as a string (e.g. decoded bytes, newline='' reads)
    rec, _ = gap_parse.parse_record(text)
    (rws,) = rec.values()
    table = kbmag_utils.build_dict(rws["table"]["transitions"], rws["alphabet"]["names"], to_filter=[0])
    return fsa.FSA(table, start_vertices=rws["initial"])

def load_file(text):
    # public route 2: a kbmag file on disk
    with tempfile.TemporaryDirectory() as td:
        path = os.path.join(td, "g.wa")
        with open(path, "w", newline="") as f:
            f.write(text)
        return fsa.load_kbmag_file(path)

bad = False
variants = {
  "reference": TXT,
  "CRLF between the rows of the table": TXT.replace("[[2,0],[0,1]]", "[[2,0],\r\n[0,1]]"),
  "CRLF inside a row": TXT.replace("[[2,0],[0,1]]", "[[2,\r\n0],[0,1]]"),
  "blanks in the interval": TXT.replace("[1..2]", "[ 1 .. 2 ]"),
  "GAP comment": TXT.replace("isFSA := true,", "isFSA := true, # word acceptor\n"),
}
for name, text in variants.items():
    for route, loader in (("parse_record", load), ("load_kbmag_file", load_file)):
        try:
            aut = loader(text)
            got = None if aut is None else aut.graph_dict
            start = None if aut is None else list(aut.start_vertices)
        except Exception as e:
            got, start = f"{type(e).__name__}: {e}", None
        ok = (got == expected and start == [1])
        print(f"{name:36s} {route:16s} -> {got!r} start {start}   {'ok' if ok else 'WRONG'}")
        bad |= not ok
if bad:
    print("FAIL: equivalent kbmag records (differing only in white space / comments) do not load to the same automaton")
    sys.exit(1)
print("ok")
