"""gln_adjoint / sln_adjoint / sl2c_herm_action / sl2c_to_so31 on arrays of
matrices, and the dtype of the adjoint of a single float matrix.

(1) For a single float64 matrix gln_adjoint and sln_adjoint return an array of
    dtype object (the dtype probe is pointed at the *lambda* M -> g M g^-1, which
    numpy turns into an object array), so e.g. numpy.linalg cannot use the
    result.
(2) For an array of k matrices (legal: "for single matrices and for arrays of
    matrices alike", and every function here uses mat.shape[-1] / swapaxes(-1,-2)
    as if vectorized) they raise ValueError for k > 1 and silently drop the
    leading axis for k == 1.
Oracle: the same function applied to the matrices one at a time.
"""
import sys
import numpy as np
from geometry_tools import lie

rng = np.random.default_rng(0)
bad = []

g = rng.normal(size=(2, 2))
for name, f in (("gln_adjoint", lie.gln_adjoint), ("sln_adjoint", lie.sln_adjoint)):
    r = f(g)
    if r.dtype == object:
        bad.append("%s(float64 matrix).dtype is object" % name)
    try:
        np.linalg.det(r)
    except Exception as e:
        bad.append("numpy.linalg.det(%s(g)) raises %s" % (name, type(e).__name__))

gs = rng.normal(size=(3, 2, 2))
cs = gs + 1j * rng.normal(size=(3, 2, 2))
for name, f, arr in (("gln_adjoint", lie.gln_adjoint, gs),
                     ("sln_adjoint", lie.sln_adjoint, gs),
                     ("sl2c_herm_action", lie.sl2c_herm_action, cs),
                     ("sl2c_to_so31", lie.sl2c_to_so31, cs)):
    singles = np.array([np.asarray(f(x), dtype=complex) for x in arr])
    for k in (1, 3):
        try:
            r = np.asarray(f(arr[:k]), dtype=complex)
        except Exception as e:
            bad.append("%s(array of shape %s) raises %s: %s" %
                       (name, arr[:k].shape, type(e).__name__, e))
            continue
        if r.shape != singles[:k].shape:
            bad.append("%s(array of shape %s) has shape %s, expected %s" %
                       (name, arr[:k].shape, r.shape, singles[:k].shape))
        elif not np.allclose(r, singles[:k]):
            bad.append("%s(array) differs from one-at-a-time values" % name)

if bad:
    for line in bad:
        print(line)
    sys.exit(1)
print("ok")
