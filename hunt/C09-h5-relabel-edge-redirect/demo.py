"""add_edges() with a label that already leaves the tail towards another
vertex: the label view is redirected, the outgoing / incoming views keep
the old edge as well, so the three views describe different edge sets."""
import sys
from geometry_tools.automata.fsa import FSA

def views(a):
    lab = {(v, w, l) for v, nb in a.graph_dict.items() for l, w in nb.items()}
    out = [(v, w, l) for v in a.vertices() for (_, w, l) in a.edges_out(v)]
    inc = [(v, w, l) for w in a.vertices() for (v, _, l) in a.edges_in(w)]
    return lab, out, inc

bad = False
for route in ("label->target dict", "target->labels dict", "add_edges only"):
    if route == "label->target dict":
        a = FSA({0: {'a': 1}, 1: {}, 2: {}}, start_vertices=[0])
    elif route == "target->labels dict":
        a = FSA({0: {1: ['a']}, 1: {}, 2: {}}, start_vertices=[0], graph_dict=False)
    else:
        a = FSA(start_vertices=[0]); a.add_edges([(0, 1, 'a')]); a.add_vertices([2])
    a.add_edges([(0, 2, 'a')])          # second edge labelled 'a' out of 0
    lab, out, inc = views(a)
    coherent = (lab == set(out) == set(inc)
                and len(out) == len(set(out)) and len(inc) == len(set(inc)))
    print(f"{route}: label view {sorted(lab)}  outgoing {sorted(out)}  incoming {sorted(inc)}"
          f"  follow_word('a') -> {a.follow_word('a')}  has_edge(0,1) -> {a.has_edge(0,1)}")
    if not coherent:
        bad = True
if bad:
    print("FAIL: the three views disagree about the edges labelled 'a' leaving 0")
    sys.exit(1)
print("ok")
