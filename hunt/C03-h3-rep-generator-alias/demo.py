"""Assigning a generator, rep['a'] = T, stores a VIEW of the caller's data
(T.matrix.T for a Transformation / Isometry, the ndarray itself for a plain
Representation), while the inverse generator 'A' is a freshly computed array.
If the caller afterwards reuses / modifies its object in place (item
assignment, in-place arithmetic), rep['a'] silently changes but rep['A'] does
not: the representation is no longer a homomorphism (rep['aA'] != identity)
and images of words no longer act as the product of the generator matrices
that were assigned."""
import sys
import numpy as np
from geometry_tools import hyperbolic, representation

fail = False

lox = hyperbolic.Isometry.standard_loxodromic(2, 2.0)
assigned = lox.matrix.T.copy()          # column-vector matrix of 'a'
rep = hyperbolic.HyperbolicRepresentation()
rep["a"] = lox

# the caller recycles its Isometry object for something else
lox[...] = hyperbolic.Isometry.standard_rotation(1.0)

pt = hyperbolic.Point([0.1, 0.2], model="klein")
v = pt.proj_data
got = (rep["a"] @ pt).proj_data
expected = assigned @ v
ok1 = np.allclose(np.cross(got, expected), 0)
ok2 = np.allclose(rep["aA"].matrix, np.eye(3))
print("HyperbolicRepresentation: rep['a'] still acts as the assigned matrix:", ok1)
print("HyperbolicRepresentation: rep['aA'] is the identity:", ok2)
if not ok2:
    print(rep["aA"].matrix)
fail |= not (ok1 and ok2)

M = np.array([[2.0, 1.0], [1.0, 1.0]])
rep2 = representation.Representation()
rep2["a"] = M
M *= 3                                   # caller's array, modified in place
ok3 = np.allclose(rep2["aA"], np.eye(2))
print("Representation: rep['aA'] is the identity:", ok3, rep2["aA"].tolist())
fail |= not ok3

if fail:
    print("FAIL: the representation shares memory with the objects assigned to it")
    sys.exit(1)
print("ok")
