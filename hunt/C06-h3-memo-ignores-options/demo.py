"""The memo dictionary `precomputed` of Representation.automaton_accepted is keyed
by (length, state) only, although the memoised value also depends on maxlen,
on whether `state` is a start or an end state, on with_words and on
edge_words.  Reusing one dictionary across calls that differ in one of these
options (the docstring invites reuse: 'the dictionary will be populated when
the function is called') silently returns the words / matrices of the earlier
option set."""
import sys
from collections import Counter
import numpy as np
from geometry_tools import representation
from geometry_tools.automata import fsa

rep = representation.Representation()
rep["a"] = np.array([[2.0, 1.0], [1.0, 1.0]])
rep["b"] = np.array([[1.0, 3.0], [0.0, 1.0]])
aut = fsa.FSA({0: {"a": 1, "b": 0}, 1: {"b": 0}}, start_vertices=[0])

def language(length, exact, start=0, end=None):
    """brute force enumeration of the paths of the automaton"""
    out = []
    def walk(v, w):
        if (len(w) == length or not exact) and (end is None or v == end):
            out.append(w)
        if len(w) < length:
            for label, nxt in aut.graph_dict[v].items():
                walk(nxt, w + label)
    walk(start, "")
    return Counter(out)

fail = False
def check(what, result, expected):
    global fail
    mats, words = result
    ok = (Counter(words) == expected and len(mats) == len(words) and
          all(np.allclose(m, rep[w]) for m, w in zip(mats, words)))
    print(f"{what}: got {sorted(words)}, expected {sorted(expected.elements())}"
          f" -> {'ok' if ok else 'WRONG'}")
    fail |= not ok

memo = {}
check("maxlen=True  (fresh memo) ",
      rep.automaton_accepted(aut, 3, with_words=True, precomputed=memo),
      language(3, exact=False))
check("maxlen=False (same memo)  ",
      rep.automaton_accepted(aut, 3, with_words=True, maxlen=False,
                             precomputed=memo),
      language(3, exact=True))

memo = {}
check("start_state=1 (fresh memo)",
      rep.automaton_accepted(aut, 2, with_words=True, start_state=1,
                             precomputed=memo),
      language(2, exact=False, start=1))
check("end_state=1   (same memo) ",
      rep.automaton_accepted(aut, 2, with_words=True, end_state=1,
                             precomputed=memo),
      language(2, exact=False, end=1))

if fail:
    print("FAIL: a reused memo dictionary returns results of a different option set")
    sys.exit(1)
print("ok")
