"""Half-plane model: a polygon edge / segment whose circle has radius above the drawing
threshold (80) is replaced by a VERTICAL segment (the x of the second endpoint is overwritten by the
x of the first), although both endpoints are finite and on screen.  The path therefore does not
visit the second vertex and leaves the edge.  The deliberate approximation is the straight chord
between the two endpoints; the vertical ray is only right when the far endpoint is at infinity."""
import os, sys
os.environ.setdefault("MPLBACKEND", "Agg")
import numpy as np
import matplotlib
matplotlib.use("Agg")
import matplotlib.pyplot as plt
from geometry_tools import hyperbolic, drawtools

def hdist(p, q):            # closed form distance in the upper half plane
    return np.arccosh(max(1.0, 1 + ((p - q) ** 2).sum() / (2 * p[1] * q[1])))

def off_edge(p, a, b):      # 0 iff p lies on the geodesic segment [a, b]
    return hdist(a, p) + hdist(p, b) - hdist(a, b)

fail = False

# 1. polygon, default view: all three vertices are well inside xlim=(-6,6), ylim=(-0.1,8)
V = np.array([[0.0, 1.0], [0.25, 7.0], [2.0, 3.0]])   # first edge: circle of radius 96 centred (96, 0)
poly = hyperbolic.Polygon(hyperbolic.Point(V, model="halfspace"))
d = drawtools.HyperbolicDrawing(model="halfspace")
d.draw_polygon(poly)
path = d.ax.patches[0].get_path()
pv = path.vertices
for v in V:
    miss = np.linalg.norm(pv - v, axis=1).min()
    if miss > 1e-6:
        print("polygon: path does not visit vertex %s (closest path vertex is %.4f away)" % (v, miss))
        fail = True
worst = 0
for bez, code in path.iter_bezier():
    for t in np.linspace(0, 1, 9):
        p = np.asarray(bez(t)).ravel()
        worst = max(worst, min(off_edge(p, V[i], V[(i + 1) % 3]) for i in range(3)))
# (the chord of the r=96 edge stays within 4e-3 of the arc in this measure; a vertical segment is not)
if worst > 2e-2:
    print("polygon: a sampled path point is off every edge by %.3f (hyperbolic detour)" % worst)
    fail = True
print("polygon path vertices for the first edge:", pv[:3].tolist())

# 2. a single segment
seg = hyperbolic.Segment(hyperbolic.Point(V[:2], model="halfspace"))
d2 = drawtools.HyperbolicDrawing(model="halfspace")
d2.draw_geodesic(seg)
sv = d2.ax.patches[0].get_path().vertices
err = min(np.abs(sv - V[:2]).max(), np.abs(sv[::-1] - V[:2]).max())
if err > 1e-6:
    print("segment: drawn", sv.tolist(), "expected the chord", V[:2].tolist())
    fail = True

# 3. a whole geodesic (ideal endpoints x=-100 and x=100, semicircle of radius 100) in a view
#    that contains it: the drawn path is degenerate (both vertices identical), nothing is drawn
ends = hyperbolic.Point(np.array([[-100.0, 0.0], [100.0, 0.0]]), model="halfspace")
geo = hyperbolic.Geodesic(ends)
d3 = drawtools.HyperbolicDrawing(model="halfspace", xlim=(-150.0, 150.0), ylim=(-1.0, 150.0))
d3.draw_geodesic(geo)
gv = d3.ax.patches[0].get_path().vertices if d3.ax.patches else None
if gv is not None and len(gv) == 2:
    got_x = sorted(np.round(gv[:, 0], 6).tolist())
    if got_x != [-100.0, 100.0]:
        print("geodesic (-100,100): drawn path", gv.tolist(), "does not join the two endpoints")
        fail = True
plt.close("all")
sys.exit(1 if fail else 0)
