"""Hyperplane.from_reflection / Geodesic.from_reflection reject genuine reflections
whose wall is only moderately far from the origin.

The reflection across the hyperplane with unit normal v = (sinh D, cosh D * d) has
matrix entries of size cosh(2D).  from_reflection compares the numerically computed
eigenvalues with (-1, 1, ..., 1) using the ABSOLUTE threshold 1e-8; the eigenvalue 1 is
repeated, so its computed values are off by about eps * |M|^2, which exceeds 1e-8 from
D ~ 5 on.  The matrix itself (also the one the library builds with reflection_across)
is accurate to ~1e-11 relative, is an exact involution and isometry to that accuracy,
and its (-1)-eigenvector still gives the normal to ~1e-12.
"""
import sys
import numpy as np
from geometry_tools import hyperbolic as hy
from geometry_tools.base import GeometryError


def J(n):
    j = np.eye(n)
    j[0, 0] = -1
    return j


def reflection_matrix(v):
    # closed form, row-vector convention: x -> x - 2 <x, v> / <v, v> v
    n = len(v)
    return np.eye(n) - 2 * np.outer(J(n) @ v, v) / (v @ J(n) @ v)


failures = []
rng = np.random.default_rng(0)

for dim in (2, 3, 4):
    n = dim + 1
    for D in (2.0, 4.0, 5.5, 6.0, 7.0):
        d = rng.normal(size=dim)
        d /= np.linalg.norm(d)
        v = np.concatenate([[np.sinh(D)], np.cosh(D) * d])   # <v, v> = 1

        exact = reflection_matrix(v)
        built = hy.Hyperplane(v).reflection_across()

        # the library's own reflection is a good reflection matrix ...
        M = built.proj_data
        scale = np.abs(exact).max()
        assert np.abs(M - exact).max() < 1e-8 * scale
        assert np.abs(M @ M - np.eye(n)).max() < 1e-8 * scale**2
        assert np.abs(M @ J(n) @ M.T - J(n)).max() < 1e-8 * scale**2

        # ... so it has to be accepted, and give back the same hyperplane
        for label, refl in (("reflection_across()", built),
                            ("closed-form matrix", hy.Isometry(exact))):
            try:
                recovered = hy.Hyperplane.from_reflection(refl)
            except GeometryError as e:
                failures.append(
                    f"H^{dim}, wall at distance {D} from the origin, {label}: "
                    f"from_reflection raised GeometryError('{e}')")
                continue

            w = recovered.spacelike_vector
            cosh_between = abs(w @ J(n) @ v) / np.sqrt((w @ J(n) @ w) * (v @ J(n) @ v))
            if abs(cosh_between - 1) > 1e-6:
                failures.append(
                    f"H^{dim}, D={D}, {label}: recovered normal differs from v")

        if dim == 2:
            try:
                hy.Geodesic.from_reflection(built)
            except GeometryError as e:
                failures.append(
                    f"H^2, D={D}: Geodesic.from_reflection(reflection_across()) "
                    f"raised GeometryError('{e}')")

# the same happens for reflections of a Coxeter representation: the (4,4,4) triangle
# group, generator a conjugated by (abc)^3 (a word of length 19, wall at distance 5.9)
from geometry_tools import coxeter
rep = coxeter.TriangleGroup((4, 4, 4)).hyperbolic_rep()
for k in (1, 2, 3):
    word = "abc" * k
    conj = rep.isometries([word + "a" + word[::-1]])[0]
    M = conj.proj_data
    assert np.abs(M @ M - np.eye(3)).max() < 1e-9 * np.abs(M).max() ** 2
    try:
        wall = hy.Hyperplane.from_reflection(conj)
        w = wall.spacelike_vector
        if np.abs(w @ M + w).max() > 1e-6 * np.abs(M).max() * np.abs(w).max():
            failures.append(f"(4,4,4) group, (abc)^{k} a (abc)^-{k}: wrong wall")
    except GeometryError as e:
        failures.append(
            f"(4,4,4) triangle group, reflection (abc)^{k} a (abc)^-{k} (word length "
            f"{6 * k + 1}): from_reflection raised GeometryError('{e}')")

if failures:
    print("FAIL")
    for f in failures:
        print(" -", f)
    sys.exit(1)

print("OK: reflections across far walls are recognised")
sys.exit(0)
