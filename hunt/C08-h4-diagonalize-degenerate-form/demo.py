"""diagonalize=True destroys the representation when the cosine form is
degenerate (affine Coxeter groups, infinite dihedral group).

For the infinite dihedral group (one infinite label) and for the group
(inf,2,2) the generators of geometric_representation(diagonalize=True) are
SINGULAR matrices (a row and column of zeros), so they are not involutions and
a and b even get the same image.  For the Euclidean triangle groups (3,3,3),
(2,4,4), (2,3,6) the null eigenvalue comes out as ~1e-16 instead of 0, the
conjugating matrix has entries ~1e8 and the images satisfy s^2 = 1 only to
~1e-8 and lose the translation part: the translation (ab ac)... of infinite
order is sent to (numerically) the identity.
Oracle: s^2 = I, and conjugation invariants (trace / order) of the
undiagonalised geometric representation.
"""
import sys
import numpy as np
from geometry_tools import coxeter

bad = []
def check(G, label):
    plain = G.geometric_representation()
    diag = G.geometric_representation(diagonalize=True)
    n = len(G.ordered_gens)
    for g in G.ordered_gens:
        m = diag[g]
        if not np.allclose(m @ m, np.eye(n), atol=1e-12):
            bad.append("%s: image of %s is not an involution, |s^2 - 1| = %.2g, det = %.3g"
                       % (label, g, np.abs(m @ m - np.eye(n)).max(), np.linalg.det(m)))
    # a word of infinite order: its powers must not come back to the identity,
    # and conjugation must preserve (w - 1)^2-type invariants; compare a
    # conjugation invariant of a long word
    w = "".join(G.ordered_gens) * 4
    t_plain, t_diag = np.trace(plain[w]), np.trace(diag[w])
    d_plain = np.linalg.matrix_rank(plain[w] - np.eye(n), tol=1e-6)
    d_diag = np.linalg.matrix_rank(diag[w] - np.eye(n), tol=1e-6)
    if not np.isclose(t_plain, t_diag, atol=1e-6) or d_plain != d_diag:
        bad.append("%s: word %s: trace %.6g vs %.6g, rank(w - 1) %d vs %d (plain vs diagonalised)"
                   % (label, w, t_plain, t_diag, d_plain, d_diag))

check(coxeter.CoxeterGroup(diagram=[("a", "b", 0)]), "infinite dihedral")
check(coxeter.CoxeterGroup(matrix=[[1, 2, 2], [2, 1, -1], [2, -1, 1]]), "(2,2,inf)")
check(coxeter.TriangleGroup((3, 3, 3)), "(3,3,3)")
check(coxeter.TriangleGroup((2, 4, 4)), "(2,4,4)")
check(coxeter.TriangleGroup((2, 3, 6)), "(2,3,6)")
check(coxeter.TriangleGroup((2, 3, 7)), "(2,3,7) [non-degenerate control]")
if bad:
    print("\n".join(bad))
    sys.exit(1)
print("ok")
