"""Isometry.fixed_point(max_eigval=False) and Isometry.fixed_point_pair(sort_eigvals=False)
raise ValueError for every isometry (single or composite, any dimension), although both
keyword options are documented.
"""
import sys
import numpy as np
from geometry_tools import hyperbolic as hy


def J(n):
    j = np.eye(n)
    j[0, 0] = -1
    return j


def is_fixed_in_closed_ball(iso_matrix, x):
    n = len(x)
    y = x @ iso_matrix
    fixed = np.abs(np.outer(x, y) - np.outer(y, x)).max() < 1e-6 * (x @ x) ** .5 * (y @ y) ** .5
    inside = (x @ J(n) @ x) / (x @ x) < 1e-6
    return fixed and inside


failures = []

isometries = {
    "loxodromic H^2": hy.Isometry.standard_loxodromic(2, 3.0),
    "loxodromic H^3": hy.Isometry.standard_loxodromic(3, 0.25),
    "rotation H^2": hy.Isometry.standard_rotation(1.0),
    "composite (loxodromic, rotation)": hy.Isometry(np.stack([
        hy.Isometry.standard_loxodromic(2, 3.0).proj_data,
        hy.Isometry.standard_rotation(1.0).proj_data])),
}

for name, iso in isometries.items():
    mats = iso.proj_data.reshape((-1,) + iso.proj_data.shape[-2:])

    try:
        pts = iso.fixed_point(max_eigval=False).proj_data.reshape(len(mats), -1)
        for m, x in zip(mats, pts):
            if not is_fixed_in_closed_ball(m, x):
                failures.append(f"{name}: fixed_point(max_eigval=False) = {x} is not a fixed point in the closed ball")
    except Exception as e:
        failures.append(f"{name}: fixed_point(max_eigval=False) raised {type(e).__name__}: {e}")

    if "rotation" in name:
        continue
    try:
        pairs = iso.fixed_point_pair(sort_eigvals=False).proj_data.reshape(len(mats), 2, -1)
        for m, pair in zip(mats, pairs):
            if not all(is_fixed_in_closed_ball(m, x) for x in pair):
                failures.append(f"{name}: fixed_point_pair(sort_eigvals=False) = {pair} are not the ideal endpoints")
            elif abs(pair[0] @ pair[1]) > (1 - 1e-6) * np.linalg.norm(pair[0]) * np.linalg.norm(pair[1]):
                failures.append(f"{name}: fixed_point_pair(sort_eigvals=False) returned the same endpoint twice")
    except Exception as e:
        failures.append(f"{name}: fixed_point_pair(sort_eigvals=False) raised {type(e).__name__}: {e}")

if failures:
    print("FAIL")
    for f in failures:
        print(" -", f)
    sys.exit(1)

print("OK")
sys.exit(0)
