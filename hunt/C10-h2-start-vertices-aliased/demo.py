"""Non in-place operations must leave the original automaton unchanged, and two
automata must not share state: FSA stores the start_vertices list by reference
(including the mutable default argument)."""
import sys
from geometry_tools.automata.fsa import FSA

bad = 0
g = {0: {"a": 1, "b": 0}, 1: {"a": 0}}

# 1. rename_generators(inplace=False): "construct and return a new automaton and leave this one unchanged"
A = FSA(g, start_vertices=[0])
B = A.rename_generators({"a": "x", "b": "y"}, inplace=False)
B.start_vertices[0] = 1            # re-root the *copy*
if A.start_vertices != [0] or A.accepts("b") is not True:
    bad += 1
    print("re-rooting the renamed copy changed the original: A.start_vertices =",
          A.start_vertices, " A.accepts('b') =", A.accepts("b"), "(expected [0], True)")

# 2. automaton_multiple returns "a new automaton"
A = FSA(g, start_vertices=[0])
M = A.automaton_multiple(2)
M.start_vertices.append(1)
if A.start_vertices != [0]:
    bad += 1
    print("adding a start state to the 2-multiple changed the original: A.start_vertices =",
          A.start_vertices)

# 3. the default argument is one shared list: an automaton built without start
#    vertices (remove_long_paths builds its result like that) pollutes every
#    later automaton
A = FSA(g, start_vertices=[0])
H = A.remove_long_paths()
H.start_vertices.append(0)         # give the shortest-path automaton its root
fresh = FSA({5: {"x": 6}, 6: {}})  # unrelated automaton, no start vertices given
if fresh.start_vertices != []:
    bad += 1
    print("unrelated FSA({5:...}) now has start_vertices =", fresh.start_vertices,
          "and accepts('') =", fresh.accepts(""), "(expected [] and False)")
H.start_vertices.clear()           # undo the pollution for whoever imports us

# 4. the caller's list is not copied either
s = [0]
A = FSA(g, start_vertices=s)
s[0] = 1
if A.start_vertices != [0]:
    bad += 1
    print("changing the caller's list after construction changed the automaton:", A.start_vertices)

sys.exit(1 if bad else 0)
