"""Representation.free_words_of_length / free_words_less_than decide whether a
word is freely reduced by looking at the last CHARACTER of the word, not at
its last generator.  For a representation whose generator names have more
than one character (legal: names only need to contain a letter and be
single-case; such representations use parse_simple=False) the enumeration
yields words that are not freely reduced, e.g. 'x1X1', so the 'freely reduced
words' are neither reduced nor in bijection with the matrices returned by
freely_reduced_elements; the yielded strings also cannot be parsed back by
the representation (no '*' separators)."""
import sys
import numpy as np
from geometry_tools import representation

rep = representation.Representation(parse_simple=False)
rep["x1"] = np.array([[2.0, 1.0], [1.0, 1.0]])
rep["y"] = np.array([[1.0, 3.0], [0.0, 1.0]])
gens = ["x1", "X1", "y", "Y"]
inverse = {"x1": "X1", "X1": "x1", "y": "Y", "Y": "y"}

def brute(length):
    words = [[]]
    for _ in range(length):
        words = [w + [g] for w in words for g in gens
                 if not w or inverse[w[-1]] != g]
    return words

fail = False
for length in (1, 2, 3):
    got = list(rep.free_words_of_length(length))
    expected = brute(length)
    n_elements = len(rep.freely_reduced_elements(length, maxlen=False))
    # an independent parse: greedy split into generator names
    def split(word):
        out, rest = [], word.replace("*", "")
        while rest:
            g = next(g for g in gens if rest.startswith(g))
            out.append(g); rest = rest[len(g):]
        return out
    unreduced = [w for w in got
                 if any(inverse[a] == b for a, b in zip(split(w), split(w)[1:]))]
    ok = (len(got) == len(expected) == n_elements and not unreduced)
    try:
        for w in got:
            image = np.eye(2)
            for g in split(w):
                image = image @ rep.generators[g]
            ok &= bool(np.allclose(rep.element(w, parse_simple=False), image))
    except KeyError as e:
        print(f"length {length}: a yielded word cannot be evaluated by the "
              f"representation: KeyError {e}")
        ok = False
    ok &= sorted(map(split, got)) == sorted(expected)
    print(f"length {length}: {len(got)} words yielded, {len(expected)} freely reduced "
          f"words exist, freely_reduced_elements has {n_elements} matrices; "
          f"not reduced: {unreduced[:4]} -> {'ok' if ok else 'WRONG'}")
    fail |= not ok
if fail:
    print("FAIL")
    sys.exit(1)
print("ok")
