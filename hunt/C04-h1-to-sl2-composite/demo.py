"""Isometry.to_sl2() on a composite isometry (documented: (..., 3, 3) -> (..., 2, 2)).

Oracle: to_sl2 of each unit isometry (which round-trips sl2_iso up to sign)."""
import sys
import numpy as np
from geometry_tools import hyperbolic

mats = np.array([[[1., 1.], [0., 1.]],
                 [[1., 0.], [1., 1.]],
                 [[4., 0.], [0., .25]]])
isos = hyperbolic.sl2_iso(mats)            # composite Isometry of shape (3,)

bad = False
try:
    with np.errstate(all="ignore"):
        got = np.asarray(isos.to_sl2())
except Exception as e:                      # most composites raise IndexError
    print("composite to_sl2() raised", repr(e))
    sys.exit(1)

print("composite to_sl2() shape:", got.shape, "(expected (3, 2, 2))")
if got.shape != (3, 2, 2):
    bad = True
else:
    for i in range(3):
        unit = hyperbolic.Isometry(isos.proj_data[i]).to_sl2()
        same = min(np.abs(got[i] - unit).max(), np.abs(got[i] + unit).max()) < 1e-9
        sl2 = min(np.abs(got[i] - mats[i]).max(), np.abs(got[i] + mats[i]).max()) < 1e-9
        if not (same and sl2):
            bad = True
            print("index", i, "got", got[i].tolist(), "unit gives", unit.tolist())
if bad:
    print("WRONG: result is not the array of the units' SL(2) matrices:\n", got)
    sys.exit(1)
print("ok")
