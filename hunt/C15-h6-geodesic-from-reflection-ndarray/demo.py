"""Geodesic.from_reflection documents `reflection : Isometry or ndarray` (like
Hyperplane.from_reflection, which accepts both) but raises AttributeError for an ndarray.
"""
import sys
import numpy as np
from geometry_tools import hyperbolic as hy

# reflection of H^2 in the geodesic x2 = 0 (the horizontal diameter); it is symmetric, so
# it is the same matrix in the row- and in the column-vector convention
matrix = np.diag([1.0, 1.0, -1.0])

try:
    geodesic = hy.Geodesic.from_reflection(matrix)
except Exception as e:
    print(f"FAIL: Geodesic.from_reflection(ndarray) raised {type(e).__name__}: {e}")
    sys.exit(1)

ends = geodesic.endpoint_coords(model="klein")
expected = np.array([[1.0, 0.0], [-1.0, 0.0]])
if not (np.allclose(ends, expected) or np.allclose(ends, expected[::-1])):
    print(f"FAIL: endpoints {ends.tolist()} instead of (+-1, 0)")
    sys.exit(1)

print("OK")
sys.exit(0)
