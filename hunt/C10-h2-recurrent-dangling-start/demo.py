"""recurrent() deletes the start state of every word acceptor (a start state has no
incoming edge) but keeps it in start_vertices.  The queries then disagree: accepts('')
is True and follow_word('') returns a state that is not in the automaton, while the
enumerators raise KeyError."""
import sys
from geometry_tools.automata import fsa

bad = 0
for name, A in [("free_automaton('ab')", fsa.free_automaton("ab")),
                ("builtin cox334.wa", fsa.load_builtin("cox334.wa"))]:
    R = A.recurrent()
    dangling = [v for v in R.start_vertices if v not in R.vertices()]
    if dangling:
        bad += 1
        print("%s: recurrent().start_vertices = %r but these are not vertices any more"
              % (name, R.start_vertices))
    acc = R.accepts("")
    try:
        enum = list(R.enumerate_words(1))
    except Exception as e:
        enum = e
    try:
        end = R.follow_word("")
    except Exception as e:
        end = e
    # with no surviving start state the language is empty; an enumerator may then
    # refuse to run, but it must not contradict accepts()
    if isinstance(enum, Exception):
        consistent = (not acc) and not R.start_vertices
    else:
        consistent = ("" in enum) == acc
    if not consistent or (acc and end not in R.vertices()):
        bad += 1
        print("%s: accepts('') = %r, follow_word('') = %r (in vertices: %s), enumerate_words(1) = %r"
              % (name, acc, end, end in R.vertices() if not isinstance(end, Exception) else "-", enum))
sys.exit(1 if bad else 0)
