"""find_isometry(form, partial_frame) for the library's own positive-first
form utils.indefinite_form(p, q, neg_first=False): the completed rows are
orthonormal, but their signs come out negative-first, so the returned
matrix does NOT preserve the form (iso @ form @ iso.T != form)."""
import sys
import numpy as np
from geometry_tools import utils

bad = False
for (p, q) in [(2, 1), (2, 2), (3, 2)]:
    for neg_first in (True, False):
        form = utils.indefinite_form(p, q, neg_first=neg_first)      # diag(+1..,-1..) or diag(-1..,+1..)
        n = p + q
        # image of e_0: a vector whose square-norm has the sign of form[0,0]
        v = np.zeros((1, n)); v[0, 0] = 1.0; v[0, 1:] = 0.1
        assert np.sign(v[0] @ form @ v[0]) == form[0, 0]
        for fo in (False, True):
            iso = utils.find_isometry(form, v.copy(), force_oriented=fo)
            gram = iso @ form @ iso.T
            flag_ok = np.linalg.matrix_rank(np.vstack([iso[:1], v])) == 1
            ok = np.allclose(gram, form, atol=1e-9) and flag_ok
            if not ok:
                bad = True
                print(f"indefinite_form({p},{q},neg_first={neg_first}), force_oriented={fo}: "
                      f"diag(iso form iso^T) = {np.round(np.diagonal(gram), 6)}, diag(form) = {np.diagonal(form)}")
if bad:
    print("FAIL: the completed frame does not preserve the form")
    sys.exit(1)
print("ok")
