"""o_to_pgl / Isometry.to_sl2 on an array of matrices.

The docstring of lie.o_to_pgl declares A of shape (..., 3, 3) and a result of
shape (..., 2, 2); Isometry.from_sl2 accepts arrays of 2x2 matrices and
to_sl2 is its documented inverse.  For a stack of k matrices the function
indexes A_d[2, 2], A_d[2, 0] ... as if A_d were a single matrix: it raises
IndexError for most stacks and, when the third matrix of the stack has the
dominant entries, silently returns an array of the wrong shape filled with
numbers that belong to no input matrix.
"""
import sys
import numpy as np
from geometry_tools import lie, hyperbolic

mats = np.array([[[1., 1.], [0., 1.]],
                 [[2., 0.], [0., .5]],
                 [[0.1, 30.], [0., 10.]]])
iso = hyperbolic.Isometry.from_sl2(mats)

def eq_pm(x, y):
    return np.allclose(x, y) or np.allclose(x, -y)

try:
    back = np.asarray(iso.to_sl2())
except Exception as e:
    print("Isometry.from_sl2(mats).to_sl2() raised %s: %s" % (type(e).__name__, e))
    sys.exit(1)

ok = back.shape == mats.shape and all(eq_pm(x, y) for x, y in zip(back, mats))
if not ok:
    print("to_sl2 of a composite isometry built from 3 matrices of shape (2,2):")
    print("  result shape", back.shape, "expected", mats.shape)
    print(back)
    singles = np.array([hyperbolic.Isometry.from_sl2(m).to_sl2() for m in mats])
    print("  one at a time (correct):")
    print(singles)
    sys.exit(1)

# also a stack for which the current code raises
mats2 = np.array([[[1., 1.], [0., 1.]], [[2., 0.], [0., .5]]])
back2 = np.asarray(lie.o_to_pgl(lie.sl2_to_so21(mats2)))
if back2.shape != mats2.shape or not all(eq_pm(x, y) for x, y in zip(back2, mats2)):
    print("o_to_pgl wrong on a stack of two matrices"); sys.exit(1)
print("ok")
