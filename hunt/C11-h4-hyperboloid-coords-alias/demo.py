"""Point.hyperboloid_coords() hands out the object's own storage.

hyperboloid_coords() normalizes self.proj_data IN PLACE and returns that very
array (numpy.divide(..., out=vectors) returns `vectors`).  So the result of the
query is not a value but a live view of the object: a later item assignment to
the Point silently rewrites the coordinates the caller obtained earlier
(query, modify, query again: the displacement comes out as exactly zero), and
writing into the returned array moves the Point.  All other coordinate queries
(kleinian, poincare, halfspace) return fresh arrays, and so does
hyperboloid_coords for integer-typed data.
"""
import sys
import numpy as np
from geometry_tools import hyperbolic

bad = []
pts = hyperbolic.Point(np.array([[0.1, 0.2], [0.3, 0.4]]), model="klein")
before = pts.hyperboloid_coords()
saved = before.copy()
pts[0] = hyperbolic.Point(np.array([-0.5, 0.5]), model="klein")
after = pts.hyperboloid_coords()
if not np.allclose(before, saved):
    bad.append("coordinates obtained BEFORE the assignment changed from %s to %s"
               % (saved[0], before[0]))
if np.allclose(after[0] - before[0], 0):
    bad.append("displacement of the reassigned point computed from the two queries is exactly zero")

q = hyperbolic.Point(np.array([0.1, 0.2]), model="klein")
h = q.hyperboloid_coords()
h[1:] = 0          # the caller reuses the array it was given
if not np.allclose(q.kleinian_coords(), [0.1, 0.2]):
    bad.append("writing into the returned coordinates moved the Point to %s" % q.kleinian_coords())
if bad:
    print("\n".join(bad))
    sys.exit(1)
print("ok")
