"""Indexing a composite object with an Ellipsis: obj[..., j] must select the units
whose LAST COMPOSITE index is j (NumPy semantics on an array of units).

Oracle: the same selection written without Ellipsis (obj[:, j]) and a per-unit loop."""
import sys
import numpy as np
from geometry_tools import hyperbolic

klein = np.array([[[0.1, 0.2], [0.3, -0.4], [-0.5, 0.6]],
                  [[0.0, 0.7], [-0.2, -0.1], [0.45, 0.45]]])     # composite shape (2, 3) in H^2
pts = hyperbolic.Point(klein, model="klein")
assert pts.shape == (2, 3)

bad = False
try:
    got = pts[..., 0]
    ref = pts[:, 0]
    print("pts[..., 0]: shape", got.shape, "dimension", got.dimension,
          "| pts[:, 0]: shape", ref.shape, "dimension", ref.dimension)
    if (got.shape != ref.shape or got.proj_data.shape != ref.proj_data.shape
            or not np.allclose(got.proj_data, ref.proj_data)):
        bad = True
        print("WRONG: pts[..., 0].proj_data =\n", got.proj_data,
              "\n  expected (units [0,0] and [1,0]):\n", ref.proj_data)
except Exception as e:
    bad = True
    print("pts[..., 0] raised", repr(e))

try:
    got = pts[..., 1:]
    ref = pts[:, 1:]
    print("pts[..., 1:]: shape", got.shape, "dimension", got.dimension,
          "| pts[:, 1:]: shape", ref.shape, "dimension", ref.dimension)
    if got.proj_data.shape != ref.proj_data.shape or not np.allclose(got.proj_data, ref.proj_data):
        bad = True
        print("WRONG: pts[..., 1:] sliced the homogeneous coordinates instead of the units")
except Exception as e:
    bad = True
    print("pts[..., 1:] raised", repr(e))

# item assignment through the same key
pts2 = hyperbolic.Point(klein, model="klein")
new = hyperbolic.Point([0.25, 0.25], model="klein")
try:
    pts2[..., 0] = new
    exp = klein.copy(); exp[:, 0] = [0.25, 0.25]
    k = pts2.coords("klein")
    if not np.allclose(k, exp):
        bad = True
        print("WRONG: after pts[..., 0] = unit, klein coords are\n", k, "\n  expected\n", exp)
except Exception as e:
    bad = True
    print("pts[..., 0] = unit raised", repr(e))

sys.exit(1 if bad else 0)
