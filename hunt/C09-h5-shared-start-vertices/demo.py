"""FSA.__init__ has a mutable default start_vertices=[] and stores the
caller's list without copying: automata built independently (or derived by
rename_generators(inplace=False) / automaton_multiple / remove_long_paths)
share ONE list of start states."""
import sys
from geometry_tools.automata.fsa import FSA

bad = False
a = FSA({0: {'a': 1}})
a.start_vertices.append(0)                 # give a its start state
b = FSA({5: {'x': 6}})                     # unrelated automaton
print("unrelated automaton b.start_vertices =", b.start_vertices, "(expected [])")
if b.start_vertices != []:
    bad = True

c = FSA({0: {'a': 1}}, start_vertices=[0])
d = c.rename_generators({'a': 'b'}, inplace=False)     # 'a new automaton'
d.start_vertices[0] = 1
print("after editing the renamed copy, original start_vertices =", c.start_vertices, "(expected [0])")
if c.start_vertices != [0]:
    bad = True

e = FSA({0: {'a': 1}, 1: {'a': 0}}, start_vertices=[0])
h = e.remove_long_paths()
print("remove_long_paths() result start_vertices =", h.start_vertices,
      "is the shared default list:", h.start_vertices is FSA().start_vertices)
if h.start_vertices is FSA().start_vertices:
    bad = True
if bad:
    print("FAIL: start states leak between automata")
    sys.exit(1)
print("ok")
