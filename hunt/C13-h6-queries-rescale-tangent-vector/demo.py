"""TangentVector queries (normalized / origin_to / angle / point_along) silently
overwrite the tangent vector they are asked about with its unit vector.

A tangent vector (p, v) of length |v| = 5 keeps reporting itself correctly until the
first read-only query; afterwards `tv.vector` has length 1, `tv.angle(other)` has
also rescaled `other`, and isometric images `iso @ tv` no longer have the length of
the vector that was handed to the constructor.
"""
import sys
import numpy as np
from geometry_tools import hyperbolic as hy


def mink(x, y):
    return -x[..., 0] * y[..., 0] + (x[..., 1:] * y[..., 1:]).sum(-1)


def build():
    # basepoint on the hyperboloid, and a tangent vector of Minkowski length 5 at it
    p = np.array([np.cosh(0.7), np.sinh(0.7), 0.0])
    u1 = np.array([np.sinh(0.7), np.cosh(0.7), 0.0])   # unit, orthogonal to p
    u2 = np.array([0.0, 0.0, 1.0])                      # unit, orthogonal to p
    v = 3.0 * u1 + 4.0 * u2                             # length 5
    w = 2.0 * u2                                        # length 2
    return p, v, w


failures = []

p, v, w = build()

# the independent oracle: the vector handed in is already tangent at p, so the
# library must keep reporting exactly that vector (closed form, length 5)
for name, query in [
        ("normalized()", lambda t, o: t.normalized()),
        ("origin_to()", lambda t, o: t.origin_to()),
        ("point_along(0.5)", lambda t, o: t.point_along(0.5)),
        ("angle(other)", lambda t, o: t.angle(o)),
]:
    tv = hy.TangentVector(hy.Point(p), v.copy())
    other = hy.TangentVector(hy.Point(p), w.copy())

    before = np.array(tv.vector)
    if not np.allclose(before, v):
        failures.append(f"{name}: vector wrong even before the query: {before}")

    query(tv, other)

    after = np.array(tv.vector)
    length_after = np.sqrt(mink(after, after))
    if not np.allclose(after, v):
        failures.append(
            f"tv.{name} changed tv.vector from {before} (length 5) to {after} "
            f"(length {length_after:.6f})")

    if name == "angle(other)":
        o_after = np.array(other.vector)
        if not np.allclose(o_after, w):
            failures.append(
                f"tv.angle(other) changed other.vector from {w} (length 2) to {o_after}")

# consequence: an isometry must preserve the length of the tangent vector it moves
iso = hy.Isometry.standard_rotation(0.3) @ hy.Point(
    [0.3, -0.2], model="klein").origin_to()
tv = hy.TangentVector(hy.Point(p), v.copy())
img1 = iso @ tv
len1 = np.sqrt(mink(img1.vector, img1.vector))
tv.point_along(1.0)             # a pure query
img2 = iso @ tv
len2 = np.sqrt(mink(img2.vector, img2.vector))
if not (np.isclose(len1, 5.0) and np.isclose(len2, 5.0)):
    failures.append(
        f"|(iso @ tv).vector| = {len1:.6f} before tv.point_along(1.0) but "
        f"{len2:.6f} after it (expected 5 both times)")

if failures:
    print("FAIL")
    for f in failures:
        print(" -", f)
    sys.exit(1)

print("OK: queries leave the tangent vector untouched")
sys.exit(0)
