"""Changing the dtype of an exact integer representation back to integers must give
a representation: rep.astype('int64')['A'] has to be the (exact, integer) inverse of
rep.astype('int64')['a'].  The stored inverse is a float LU inverse (0.9999999...),
and astype truncates it towards zero."""
import sys
from fractions import Fraction
import numpy as np
from geometry_tools.representation import Representation

def exact_inverse(M):
    # Gauss-Jordan over the rationals (independent of numpy.linalg)
    n = len(M)
    A = [[Fraction(int(x)) for x in row] + [Fraction(int(i == j)) for j in range(n)]
         for i, row in enumerate(M)]
    for c in range(n):
        p = next(r for r in range(c, n) if A[r][c] != 0)
        A[c], A[p] = A[p], A[c]
        A[c] = [x / A[c][c] for x in A[c]]
        for r in range(n):
            if r != c and A[r][c] != 0:
                A[r] = [x - A[r][c] * y for x, y in zip(A[r], A[c])]
    return np.array([[int(x) for x in row[n:]] for row in A], dtype=np.int64)

bad = 0
for M in [np.array([[1, -1], [6, -5]]),          # det 1
          np.array([[-5, 13], [-2, 5]]),
          np.array([[10, 3], [-57, -17]])]:
    rep = Representation()
    rep["a"] = M
    irep = rep.astype("int64")
    inv = exact_inverse(M)
    got = irep["A"]
    prod = irep["aA"]
    if not (np.array_equal(got, inv) and np.array_equal(prod, np.eye(2, dtype=np.int64))):
        bad += 1
        print("a =", M.tolist())
        print("  rep.astype('int64')['A']  =", np.asarray(got).tolist(), " exact inverse:", inv.tolist())
        print("  rep.astype('int64')['aA'] =", np.asarray(prod).tolist(), " expected identity",
              "(float rep gives", np.round(rep["aA"], 12).tolist(), ")")
sys.exit(1 if bad else 0)
