"""A half-plane polygon edge above the radius threshold is drawn as a chord
only when both endpoints have x inside the (slightly enlarged) x-limits of
the view.  If one endpoint is a perfectly finite vertex further out, the edge
becomes a VERTICAL ray from the other endpoint up to the top of the picture,
although the chord crosses the visible window in a quite different direction
(and the path then jumps from the top of the ray to the far vertex)."""
import sys
import numpy as np
import matplotlib
matplotlib.use("Agg")
from geometry_tools import hyperbolic, drawtools

# triangle in the upper half plane; default view is x in (-6, 6), y in (-0.1, 8)
verts = np.array([[0.0, 1.0], [3.0, 2.0], [200.0, 100.0]])
poly = hyperbolic.Polygon(hyperbolic.Point(verts, model="halfspace"))

d = drawtools.HyperbolicDrawing(model="halfspace")
d.draw_polygon(poly)
path = d.ax.patches[-1].get_path()
V = path.vertices

# independent oracle: edge (3,2)-(200,100) lies on the circle centred on the
# real axis at x0 with radius r > 80 (so the drawing code uses the chord)
a, b = verts[1], verts[2]
x0 = (b @ b - a @ a) / (2 * (b[0] - a[0]))
r = np.hypot(a[0] - x0, a[1])
assert r > drawtools.RADIUS_THRESHOLD

def dist_to_chord(p, a, b):
    ab = b - a
    t = np.clip(np.dot(p - a, ab) / np.dot(ab, ab), 0, 1)
    return np.linalg.norm(p - (a + t * ab))

# every path vertex must be close to one of the three edges (arc or chord);
# maximal distance between chord and arc is the sagitta, < 40 here but we
# only need a crude test: the path must not contain points that are on
# neither the polygon's vertices' chords nor near them.
bad = []
for p in V:
    dmin = min(dist_to_chord(p, verts[i], verts[(i + 1) % 3]) for i in range(3))
    # chord (0,1)-(3,2) and arcs are close to their chords in the window; the
    # sagitta of the two long edges is what the library neglects on purpose.
    # A point of the picture inside the window must be within 0.5 of a chord.
    inside = (-6 <= p[0] <= 6) and (0 <= p[1] <= 8)
    if inside and dmin > 0.5:
        bad.append((p, dmin))

visits_far_vertex_in_order = any(np.allclose(p, verts[2]) for p in V)
has_ray_top = [p for p in V if np.isclose(p[1], d.up_infinity) and np.isclose(p[0], 3.0)]

print("path vertices:\n", V)
ok = True
if has_ray_top:
    ok = False
    print("WRONG: edge (3,2)->(200,100) was replaced by the vertical ray "
          "(3,2)->(3,%.2f); the chord leaves the window at about (6, 3.5)" % d.up_infinity)
if bad:
    ok = False
    print("WRONG: visible path points far from every edge of the polygon:", bad[:3])
sys.exit(0 if ok else 1)
