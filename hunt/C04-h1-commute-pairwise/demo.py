"""Transformation.commute(other, broadcast="pairwise") must return the full table
result[i][j] = (self[i] commutes with other[j]).

Oracle: direct matrix products A @ B == B @ A for every pair."""
import sys
import numpy as np
from geometry_tools import projective

D1 = np.diag([1., 2., 3.]); D2 = np.diag([2., 5., 7.])
R = np.array([[0., 1, 0], [-1, 0, 0], [0, 0, 1.]])        # rotation, does not commute with D1, D2
S = np.array([[1., 1, 0], [0, 1, 0], [0, 0, 1.]])

def table(A, B):
    return np.array([[np.allclose(a @ b, b @ a) for b in B] for a in A])

bad = False
A = projective.Transformation(np.array([D1, R]))
for name, mats in [("equal sizes (2 x 2)", np.array([R, D2])),
                   ("sizes 2 x 3", np.array([D2, R @ R, S]))]:
    B = projective.Transformation(mats)
    exp = table(A.proj_data, B.proj_data)
    try:
        got = np.asarray(A.commute(B, broadcast="pairwise"))
    except Exception as e:
        bad = True
        print(name, ": raised", repr(e)[:150])
        continue
    ok = got.shape == exp.shape and (got == exp).all()
    print(name, ": got\n", got, "\nexpected\n", exp, "" if ok else "\n  <-- WRONG")
    bad |= not ok
sys.exit(1 if bad else 0)
