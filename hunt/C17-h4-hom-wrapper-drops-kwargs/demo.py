"""hom.so21_to_sl2(bilinear_form=F) silently ignores F.

lie.hom.so21_to_sl2(**kwargs) wraps lie.o_to_pgl as a generator-wise
homomorphism; o_to_pgl takes the invariant form as the keyword
`bilinear_form`.  The wrapper drops every keyword, so the returned map uses
the default form diag(-1,1,1) for matrices that preserve a different form:
its values do not have determinant one and it is not a homomorphism up to
sign.  Oracle: lie.o_to_pgl called directly with the form (a homomorphism up
to sign, det 1, |trace| equal to that of the SL(2) matrix we started from).
"""
import sys
import numpy as np
from geometry_tools import lie
from geometry_tools.lie import hom

J = np.diag([-1., 1., 1.])
P = np.array([[0., 0., 1.], [0., 1., 0.], [1., 0., 0.]])   # reorder the basis
F = P.T @ J @ P                                            # = diag(1, 1, -1)

a = np.array([[2., 1.], [1., 1.]])
b = np.array([[1., 3.], [0., 1.]])
A, B = [np.linalg.inv(P) @ lie.sl2_to_so21(m) @ P for m in (a, b)]
assert np.allclose(A.T @ F @ A, F) and np.allclose(B.T @ F @ B, F)

h = hom.so21_to_sl2(bilinear_form=F)
ha, hb, hab = h(A), h(B), h(A @ B)

def eq_pm(x, y):
    return np.allclose(x, y) or np.allclose(x, -y)

bad = []
if not np.isclose(abs(np.linalg.det(ha)), 1):
    bad.append("det h(A) = %r (expected +-1)" % np.linalg.det(ha))
if not np.isclose(abs(np.trace(ha)), abs(np.trace(a))):
    bad.append("|tr h(A)| = %r, expected %r" % (abs(np.trace(ha)), abs(np.trace(a))))
if not eq_pm(ha @ hb, hab):
    bad.append("h(A) h(B) != +-h(AB)")
if not eq_pm(ha, lie.o_to_pgl(A, bilinear_form=F)):
    bad.append("h(A) differs from lie.o_to_pgl(A, bilinear_form=F)")

if bad:
    print("hom.so21_to_sl2(bilinear_form=F) ignores F:")
    for line in bad:
        print("  ", line)
    sys.exit(1)
print("ok")
