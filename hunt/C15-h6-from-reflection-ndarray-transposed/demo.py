"""Hyperplane.from_reflection(ndarray) reads the matrix in the opposite convention to
the rest of the library and silently returns the mirror image of the wall.

The docstring allows `reflection : Isometry or ndarray`.  Everywhere else a bare matrix
is read in the row-vector convention (Isometry(m) == Isometry(m, column_vectors=False),
and Isometry.matrix / .proj_data hand out exactly that matrix), but from_reflection
treats a bare matrix as acting on column vectors.  For the reflection in the normal
v = (v0, v1, ..) it therefore returns the hyperplane with normal (-v0, v1, ..), which
the reflection does not fix, unless v0 = 0.
"""
import sys
import numpy as np
from geometry_tools import hyperbolic as hy


def J(n):
    j = np.eye(n)
    j[0, 0] = -1
    return j


def parallel(a, b):
    return np.isclose(abs(a @ b), np.linalg.norm(a) * np.linalg.norm(b))


failures = []

for v in (np.array([0.3, 1.0, 0.5]),
          np.array([-0.6, 0.2, 1.0, 0.3]),
          np.array([0.9, 1.0, 0.2, -0.3, 0.4])):
    n = len(v)
    refl = hy.Hyperplane(v).reflection_across()

    # closed form for the matrix the library uses (row vectors: x -> x @ M)
    M = np.eye(n) - 2 * np.outer(J(n) @ v, v) / (v @ J(n) @ v)
    assert np.allclose(refl.matrix, M)

    from_object = hy.Hyperplane.from_reflection(refl)
    from_matrix = hy.Hyperplane.from_reflection(refl.matrix)

    if not parallel(from_object.spacelike_vector, v):
        failures.append(f"n={n}: from_reflection(Isometry) lost the normal")

    w = from_matrix.spacelike_vector
    if not parallel(w, v):
        failures.append(
            f"H^{n-1}: from_reflection(refl.matrix) has normal {w / np.abs(w).max()} "
            f"instead of {v / np.abs(v).max()}")

    # the wall recovered from the matrix has to be fixed pointwise by the reflection
    ideal = hy.Point(from_matrix.ideal_basis)
    moved = (refl @ ideal).proj_data
    original = ideal.proj_data
    fixed = all(parallel(a, b) for a, b in zip(moved, original))
    if not fixed:
        failures.append(
            f"H^{n-1}: the reflection does not fix the ideal points of the "
            f"hyperplane from_reflection(refl.matrix) returned")

if failures:
    print("FAIL")
    for f in failures:
        print(" -", f)
    sys.exit(1)

print("OK: from_reflection(matrix) and from_reflection(Isometry(matrix)) agree")
sys.exit(0)
