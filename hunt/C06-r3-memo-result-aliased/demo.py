"""automaton_accepted returns the very objects it stores in the caller's
memo dictionary: sorting the returned word list (or rescaling the returned
array) corrupts every later call that reuses the memo."""
import sys
import numpy as np
from geometry_tools import representation, projective
from geometry_tools.automata import fsa

A = np.array([[1., 1.], [0., 1.]])
B = np.array([[1., 0.], [1., 1.]])
mats = {'a': A, 'b': B, 'A': np.linalg.inv(A), 'B': np.linalg.inv(B)}

def image(word):                      # independent oracle
    M = np.identity(2)
    for letter in word:
        M = M @ mats[letter]
    return M

aut = fsa.free_automaton(['a', 'b'])
failures = 0

# 1. word list: plain and projective representations alike
rep = representation.Representation()
rep['a'], rep['b'] = A, B
memo = {}
m2, w2 = rep.automaton_accepted(aut, 2, with_words=True, start_state='a',
                                precomputed=memo)
assert all(np.allclose(M, image(w)) for M, w in zip(m2, w2))
w2.sort()                             # the caller orders HIS list of words

m2b, w2b = rep.automaton_accepted(aut, 2, with_words=True, start_state='a',
                                  precomputed=memo)
wrong = [w for M, w in zip(m2b, w2b) if not np.allclose(M, image(w))]
print("same call again:  %d of %d matrices are not the image of their word"
      % (len(wrong), len(w2b)))
failures += bool(wrong)

m3, w3 = rep.automaton_accepted(aut, 3, with_words=True, precomputed=memo)
wrong = [w for M, w in zip(m3, w3) if not np.allclose(M, image(w))]
print("length 3, default start: %d of %d matrices are not the image of "
      "their word" % (len(wrong), len(w3)))
failures += bool(wrong)

# 2. matrices (plain Representation hands out the memoised ndarray itself)
memo = {}
m = rep.automaton_accepted(aut, 2, start_state='a', precomputed=memo)
m *= 2                                # caller rescales his copy
m3 = rep.automaton_accepted(aut, 3, precomputed=memo)
expected = sorted(tuple(image(w).ravel()) for w in aut.enumerate_words(3))
got = sorted(tuple(M.ravel()) for M in m3)
print("after rescaling an earlier result in place, the length-3 images "
      "agree with the automaton's words:", got == expected)
failures += (got != expected)

if failures:
    print("FAIL: results are aliased with the entries of the memo dictionary")
    sys.exit(1)
print("OK")
