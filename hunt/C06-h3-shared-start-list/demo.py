"""(same root cause as C09-h5-shared-start-vertices, seen through C06)
FSA.__init__ has the mutable default start_vertices=[] and stores the list
without copying; even_automaton / automaton_multiple / rename_generators hand
their own list on.  Automata built incrementally ('adding vertices/edges
individually through the built-in methods', class docstring) therefore share
ONE start list, and automaton_accepted / enumerate_words silently enumerate
the second automaton from the first automaton's start state."""
import sys
from collections import Counter
import numpy as np
from geometry_tools import representation
from geometry_tools.automata import fsa

rep = representation.Representation()
rep["a"] = np.array([[2.0, 1.0], [1.0, 1.0]])
rep["b"] = np.array([[1.0, 3.0], [0.0, 1.0]])

first = fsa.FSA()
first.add_edges([(0, 1, "a"), (1, 0, "b")])
first.start_vertices.append(0)

second = fsa.FSA()
second.add_edges([(0, 1, "a"), (1, 1, "b")])
second.start_vertices.append(1)            # this automaton starts at state 1

_, words = rep.automaton_accepted(second, 2, with_words=True)
expected = ["", "b", "bb"]                 # paths from state 1
ok1 = Counter(words) == Counter(expected)
print("words of the second automaton:", words, "expected", expected,
      "ok" if ok1 else "WRONG", "(start_vertices =", second.start_vertices, ")")

# an automaton and its even-length version share the list as well
aut = fsa.FSA({0: {"a": 1}, 1: {"b": 2}, 2: {"a": 0}}, start_vertices=[0])
even = aut.even_automaton()
even.start_vertices[0] = 2                 # edit the derived automaton only
_, aut_words = rep.automaton_accepted(aut, 2, with_words=True)
ok2 = sorted(aut_words) == ["", "a", "ab"]
print("original automaton after editing its even_automaton():", aut_words,
      "expected ['', 'a', 'ab']", "ok" if ok2 else "WRONG")
if not (ok1 and ok2):
    print("FAIL")
    sys.exit(1)
print("ok")
