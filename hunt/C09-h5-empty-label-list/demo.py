"""A target with an EMPTY list of labels (legal in the target->labels
format and in add_edges(..., elist=True)) adds no edge, but is recorded as
a neighbour in the outgoing / incoming views; neighbors_out / neighbors_in
report it and recurrent() does not prune the dead end."""
import sys
from geometry_tools.automata.fsa import FSA

bad = False
# route 1: constructor with graph_dict=False
a = FSA({0: {1: []}, 1: {0: ['a']}}, start_vertices=[1], graph_dict=False)
edges = sorted(a.edges(with_labels=True))
print("constructor: edges", edges, " neighbors_out(0)", list(a.neighbors_out(0)),
      " neighbors_in(1)", list(a.neighbors_in(1)))
# the only edge is 1 -a-> 0; 0 has no outgoing edge, so pruning dead ends
# removes 0, and then 1 (set-based model: nothing is left)
pruned = a.recurrent()
print("constructor: recurrent() keeps vertices", sorted(pruned.vertices()), "(model: [])")
if list(a.neighbors_out(0)) != [] or sorted(pruned.vertices()) != []:
    bad = True

# route 2: add_edges with an empty list of labels
b = FSA({0: {'a': 1}, 1: {'b': 0}}, start_vertices=[0])
b.add_edges([(1, 2, [])], elist=True)
print("add_edges: edges", sorted(b.edges(with_labels=True)), " neighbors_out(1)",
      list(b.neighbors_out(1)), " neighbors_in(2)", list(b.neighbors_in(2)))
if 2 in b.neighbors_out(1) or 1 in b.neighbors_in(2):
    bad = True
# vertex 2 has no incoming and no outgoing edge: recurrent() must drop it ...
print("add_edges: recurrent() keeps vertices", sorted(b.recurrent().vertices()), "(model: [0, 1])")
if sorted(b.recurrent().vertices()) != [0, 1]:
    bad = True
if bad:
    print("FAIL: neighbours without edges in the outgoing/incoming views")
    sys.exit(1)
print("ok")
