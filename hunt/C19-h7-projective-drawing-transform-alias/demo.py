"""ProjectiveDrawing(transform=T) keeps a reference to the caller's Transformation object (every other
route -- Drawing.set_transform / add_transform / precompose_transform, HyperbolicDrawing(transform=...),
CP1Drawing(transform=...) -- stores its own copy).  When the caller afterwards reuses / overwrites T in
place, everything drawn later is placed with the overwritten matrix instead of the drawing's transform."""
import os, sys
os.environ.setdefault("MPLBACKEND", "Agg")
import numpy as np
import matplotlib
matplotlib.use("Agg")
import matplotlib.pyplot as plt
from geometry_tools import projective, drawtools

M = np.diag([1.0, 2.0, 3.0])
pt = projective.Point(np.array([[1.0, 1.0, 1.0]]))
tri = projective.Polygon(np.array([[1.0, 0.0, 0.0], [1.0, 1.0, 0.0], [1.0, 0.0, 1.0]]))
expected_pt = np.array([2.0, 3.0])                       # (1,1,1) M = (1,2,3) -> chart 0 -> (2,3)
expected_tri = np.array([[0.0, 0.0], [2.0, 0.0], [0.0, 3.0]])

fail = False
for route in ["constructor", "set_transform"]:
    T = projective.Transformation(M.copy())
    if route == "constructor":
        d = drawtools.ProjectiveDrawing(transform=T)
    else:
        d = drawtools.ProjectiveDrawing()
        d.set_transform(T)
    # the caller goes on using its object for something else
    T.proj_data[...] = np.diag([1.0, 5.0, 7.0])
    d.draw_point(pt)
    d.draw_polygon(tri)
    got_pt = np.array([d.ax.lines[0].get_xdata()[0], d.ax.lines[0].get_ydata()[0]])
    got_tri = d.ax.collections[0].get_paths()[0].vertices[:3]
    ok = np.allclose(got_pt, expected_pt) and np.allclose(got_tri, expected_tri)
    print("%-14s point drawn at %s (expected %s), triangle at %s  %s"
          % (route, got_pt.tolist(), expected_pt.tolist(), got_tri.tolist(), "ok" if ok else "WRONG"))
    fail |= not ok
    plt.close(d.fig)
sys.exit(1 if fail else 0)
